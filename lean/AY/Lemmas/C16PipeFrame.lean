/-
  AY.Lemmas.C16PipeFrame — the frame of a stage with ANY number of `!append` / `!extend` / `!prev` operators
  (`opsStage`): the pre-merge pass changes the accumulated tree only by removals at the `touched` paths, and
  leaves the stage with the same mapping skeleton; hence every path that is independent of the touched paths
  and is not mentioned by the stage keeps its data through the pre-merge pass and the merge.
  Helpers for AY.Props.C16_Pipeline.
-/
import AY.Lemmas.C16PipeOps
namespace AY.C16P
open AY.C04P
open AY.C07P (opFree opFreeL premergeF_opFree)

/-! ### the frame relation between two accumulated trees -/

/-- `s'` differs from `s` only at / below / above the paths `X` (which run through mappings of `s`) -/
def Frame (s s' : Node) (X : List Path) : Prop :=
  (∀ x, x ∈ X → dictAlong x s = true) →
    (∀ t, dictAlong t s = true → dictAlong t s' = true) ∧
    (∀ t, (∀ x, x ∈ X → indep t x = true) → (native s').at? t = (native s).at? t)

theorem frame_refl (s : Node) (X : List Path) : Frame s s X := fun _ => ⟨fun _ h => h, fun _ _ => rfl⟩

theorem frame_trans {s s1 s2 : Node} {X1 X2 : List Path} (h1 : Frame s s1 X1) (h2 : Frame s1 s2 X2) :
    Frame s s2 (X1 ++ X2) := by
  intro hX
  obtain ⟨a1, b1⟩ := h1 (fun x hx => hX x (List.mem_append_left _ hx))
  obtain ⟨a2, b2⟩ := h2 (fun x hx => a1 x (hX x (List.mem_append_right _ hx)))
  refine ⟨fun t ht => a2 t (a1 t ht), fun t ht => ?_⟩
  rw [b2 t (fun x hx => ht x (List.mem_append_right _ hx)), b1 t (fun x hx => ht x (List.mem_append_left _ hx))]

theorem frame_remove {s s' d : Node} {x : Path} (h : removeNode s x = some (d, s')) : Frame s s' [x] := by
  intro hX
  have hd := hX x (by simp)
  have hg := c16_removeNode_getNode h
  have hne : x ≠ [] := by
    intro e; subst e
    cases s <;> simp [removeNode] at h
  rw [removeNode_dictAlong x s d hne hd hg] at h
  simp only [Option.some.injEq, Prod.mk.injEq, true_and] at h
  subst h
  exact ⟨fun t ht => dictAlong_eraseAt x t s ht, fun t ht => at_eraseAt_indep x t s hd (ht x (by simp))⟩

/-! ### what one operator does to the accumulated tree -/

theorem op_frame (fl : Nat) (c : Node) (path : Path) (s v : Node) (sm : Bool) (into1 : Option Node)
    (hc : isOp c = true) (h : premergeF (fl + 1) c path (some s) = .ok (v, sm, into1)) :
    ∃ s1, into1 = some s1 ∧ sm = false ∧ Frame s s1 (touched path c) := by
  cases c with
  | leaf f lk =>
    cases lk <;> try (simp [isOp] at hc; done)
    rename_i ps
    simp only [premergeF] at h
    cases hsp : splitPath ps with
    | none => simp [hsp] at h
    | some tp =>
      cases hr : removeNode s tp with
      | none => simp [hsp, hr] at h
      | some res =>
        obtain ⟨d, s1⟩ := res
        simp only [hsp, hr, Except.ok.injEq, Prod.mk.injEq] at h
        refine ⟨s1, h.2.2.symm, h.2.1.symm, ?_⟩
        simp only [touched, hsp]
        exact frame_remove hr
  | comp f ck cs =>
    cases ck <;> try (simp [isOp] at hc; done)
    · -- append
      simp only [premergeF] at h
      cases hr : removeNode s path with
      | none => simp [hr] at h
      | some res =>
        obtain ⟨d, s1⟩ := res
        cases d with
        | leaf lf lk => simp [hr] at h
        | comp tf tk tcs =>
          simp only [hr] at h
          split at h
          · simp only [Except.ok.injEq, Prod.mk.injEq] at h
            exact ⟨s1, h.2.2.symm, h.2.1.symm, frame_remove hr⟩
          · cases h
    · -- extend
      simp only [premergeF] at h
      cases hg : getNode s path with
      | none =>
        simp only [hg, Except.ok.injEq, Prod.mk.injEq] at h
        exact ⟨s, h.2.2.symm, h.2.1.symm, frame_refl s _⟩
      | some m =>
        cases m with
        | leaf lf lk =>
          simp only [hg, Except.ok.injEq, Prod.mk.injEq] at h
          exact ⟨s, h.2.2.symm, h.2.1.symm, frame_refl s _⟩
        | comp tf tk tcs =>
          simp only [hg] at h
          split at h
          · cases hr : removeNode s path with
            | none => simp [hr] at h
            | some res =>
              obtain ⟨d, s1⟩ := res
              simp only [hr, Except.ok.injEq, Prod.mk.injEq] at h
              exact ⟨s1, h.2.2.symm, h.2.1.symm, frame_remove hr⟩
          · simp only [Except.ok.injEq, Prod.mk.injEq] at h
            exact ⟨s, h.2.2.symm, h.2.1.symm, frame_refl s _⟩

/-! ### the skeleton of the stage -/

/-- every path that leaves `c` below a plain non-deleting mapping leaves `c'` the same way -/
def Shape (c c' : Node) : Prop := ∀ t, divergesLive t c = true → divergesLive t c' = true

def ShapeL (cs cs' : List (Key × Node)) : Prop :=
  akeys cs' = akeys cs ∧ ∀ k c, alookup k cs = some c → ∃ c', alookup k cs' = some c' ∧ Shape c c'

theorem keysNodup_of_akeys_eq {α β : Type} : ∀ (a : List (Key × α)) (b : List (Key × β)), akeys a = akeys b →
    keysNodup a = keysNodup b
  | [], [], _ => rfl
  | [], (_, _) :: _, h => by simp [akeys] at h
  | (_, _) :: _, [], h => by simp [akeys] at h
  | (k, _) :: ra, (k', _) :: rb, h => by
    simp only [akeys, List.cons.injEq] at h
    simp only [keysNodup, h.1, h.2, keysNodup_of_akeys_eq ra rb h.2]

theorem shape_of_shapeL (f : Flags) {cs cs' : List (Key × Node)} (h : ShapeL cs cs') :
    Shape (.comp f .dict cs) (.comp f .dict cs') := by
  intro t ht
  cases t with
  | nil => simp [divergesLive] at ht
  | cons k t =>
    obtain ⟨_, _, hsh, hlive, hn, hcc⟩ := divergesLive_cons ht
    injection hsh with h1 _ h3
    subst h1; subst h3
    have hlive' : eDel (.comp f .dict cs') = false := hlive
    have hn' : keysNodup cs' = true := by rw [keysNodup_of_akeys_eq cs' cs h.1]; exact hn
    simp only [divergesLive, hlive', hn', Bool.not_false, Bool.true_and]
    cases hl : alookup k cs with
    | none =>
      have : alookup k cs' = none := by
        rw [alookup_none_iff, h.1, ← alookup_none_iff]; exact hl
      rw [this]
    | some c =>
      obtain ⟨c', hl', hs⟩ := h.2 k c hl
      rw [hl']
      exact hs t (hcc c hl)

/-! ### the re-sets after the loop -/

/-- `applyResets` on a mapping, as a fold -/
def applyD (f : Flags) (rs : List (Key × Node)) (l : List (Key × Node)) : List (Key × Node) :=
  rs.foldl (fun acc kv => aset kv.1 (adopt f .dict kv.2) acc) l

theorem applyResets_dict (f : Flags) : ∀ (rs l : List (Key × Node)),
    applyResets f .dict rs l = .ok (applyD f rs l)
  | [], _ => rfl
  | (k, v) :: rs, l => by
    simp only [applyResets, setChild, CompKind.isDictFam, if_true, applyD, List.foldl_cons]
    exact applyResets_dict f rs _

theorem applyD_cons_notin (f : Flags) (k : Key) (x : Node) : ∀ (rs l : List (Key × Node)), k ∉ akeys rs →
    applyD f rs ((k, x) :: l) = (k, x) :: applyD f rs l
  | [], _, _ => rfl
  | (k1, v1) :: rs, l, h => by
    have h' : k ≠ k1 ∧ k ∉ akeys rs := by simpa [akeys] using h
    simp only [applyD, List.foldl_cons, aset, h'.1, if_false]
    exact applyD_cons_notin f k x rs _ h'.2

theorem applyD_cons_self (f : Flags) (k : Key) (c v : Node) (rs l : List (Key × Node)) (h : k ∉ akeys rs) :
    applyD f ((k, v) :: rs) ((k, c) :: l) = (k, adopt f .dict v) :: applyD f rs l := by
  have : applyD f ((k, v) :: rs) ((k, c) :: l) = applyD f rs ((k, adopt f .dict v) :: l) := by
    simp [applyD, aset]
  rw [this, applyD_cons_notin f k _ rs l h]

/-! ### the pre-merge pass of a stage with any number of operators -/

theorem opsStage_comp {n : Node} (h : opsStage n = true) :
    ∃ f cs, n = .comp f .dict cs ∧ eDel (.comp f .dict cs) = false ∧ keysNodup cs = true ∧ opsStageL cs = true := by
  cases n with
  | leaf f lk => simp [opsStage] at h
  | comp f ck cs =>
    cases ck <;> try (simp [opsStage] at h; done)
    simp only [opsStage, Bool.and_eq_true, Bool.not_eq_true'] at h
    exact ⟨f, cs, rfl, h.1.1, h.1.2, h.2⟩

theorem mem_akeys_cons {α : Type} (k k' : Key) (v : α) (l : List (Key × α)) :
    k ∈ akeys ((k', v) :: l) ↔ k = k' ∨ k ∈ akeys l := by simp [akeys]

/-- the loop over the entries of a stage mapping, given the statement for the entries themselves -/
theorem children_frame (f : Flags) (pre : Path) (fuel : Nat)
    (IH : ∀ (n : Node) (pre : Path) (s n' : Node) (b : Bool) (into' : Option Node), opsStage n = true →
      n.depth < fuel → premergeF fuel n pre (some s) = .ok (n', b, into') →
      ∃ s', into' = some s' ∧ b = true ∧ Frame s s' (touched pre n) ∧ Shape n n') :
    ∀ (cs : List (Key × Node)) (s : Node) (cs' rs : List (Key × Node)) (into' : Option Node),
      keysNodup cs = true → opsStageL cs = true → depthList cs < fuel →
      premergeChildren (premergeF fuel) pre cs (some s) = .ok (cs', rs, into') →
      ∃ s', into' = some s' ∧ Frame s s' (touchedL pre cs) ∧ ShapeL cs (applyD f rs cs') ∧
        (∀ k, k ∈ akeys rs → k ∈ akeys cs)
  | [], s, cs', rs, into', _, _, _, h => by
    simp only [premergeChildren, Except.ok.injEq, Prod.mk.injEq] at h
    obtain ⟨rfl, rfl, rfl⟩ := h
    exact ⟨s, rfl, frame_refl s _, ⟨rfl, fun k c hc => by simp [alookup] at hc⟩, fun k hk => by simp [akeys] at hk⟩
  | (k, c) :: rest, s, cs', rs, into', hn, hops, hd, h => by
    have hn' : k ∉ akeys rest ∧ keysNodup rest = true := by simpa [keysNodup] using hn
    have hops' : (isOp c || opFree c || opsStage c) = true ∧ opsStageL rest = true := by
      simpa [opsStageL] using hops
    have hd' : c.depth < fuel ∧ depthList rest < fuel := by simp only [depthList] at hd; omega
    simp only [premergeChildren] at h
    cases hrec : premergeF fuel c (pre ++ [k]) (some s) with
    | error e => simp [hrec] at h
    | ok res =>
      obtain ⟨c1, sm, into1⟩ := res
      -- the entry itself
      have hchild : ∃ s1, into1 = some s1 ∧ Frame s s1 (touched (pre ++ [k]) c) ∧
          Shape c (if sm then c1 else adopt f .dict c1) := by
        by_cases hop : isOp c = true
        · cases fuel with
          | zero => omega
          | succ fl =>
            obtain ⟨s1, e1, e2, e3⟩ := op_frame fl c _ s c1 sm into1 hop hrec
            refine ⟨s1, e1, e3, ?_⟩
            intro t ht
            rw [divergesLive_isOp hop t] at ht
            cases ht
        · by_cases hfree : opFree c = true
          · rw [premergeF_opFree fuel c _ (some s) hfree hd'.1] at hrec
            simp only [Except.ok.injEq, Prod.mk.injEq] at hrec
            obtain ⟨rfl, rfl, rfl⟩ := hrec
            exact ⟨s, rfl, frame_refl s _, fun t ht => ht⟩
          · have hst : opsStage c = true := by
              have := hops'.1
              simp only [Bool.or_eq_true] at this
              rcases this with (h1 | h1) | h1
              · exact absurd h1 hop
              · exact absurd h1 hfree
              · exact h1
            obtain ⟨s1, e1, e2, e3, e4⟩ := IH c _ s c1 sm into1 hst hd'.1 hrec
            subst e2
            exact ⟨s1, e1, e3, e4⟩
      obtain ⟨s1, rfl, hf1, hsh1⟩ := hchild
      simp only [hrec] at h
      cases hrest : premergeChildren (premergeF fuel) pre rest (some s1) with
      | error e => simp [hrest] at h
      | ok res2 =>
        obtain ⟨rcs', rrs, into2⟩ := res2
        obtain ⟨s2, rfl, hf2, hshL, hkeys⟩ :=
          children_frame f pre fuel IH rest s1 rcs' rrs into2 hn'.2 hops'.2 hd'.2 hrest
        have hknot : k ∉ akeys rrs := fun hk => hn'.1 (hkeys k hk)
        simp only [hrest] at h
        refine ⟨s2, ?_, ?_, ?_, ?_⟩
        · cases sm <;> simp at h <;> exact h.2.2.symm
        · simp only [touchedL]
          exact frame_trans hf1 hf2
        · -- the skeleton
          have hfin : applyD f rs cs' = (k, if sm then c1 else adopt f .dict c1) :: applyD f rrs rcs' := by
            cases sm with
            | true =>
              simp only [if_true, Except.ok.injEq, Prod.mk.injEq] at h
              obtain ⟨rfl, rfl, _⟩ := h
              exact applyD_cons_notin f k c1 rrs rcs' hknot
            | false =>
              simp only [Bool.false_eq_true, if_false, Except.ok.injEq, Prod.mk.injEq] at h
              obtain ⟨rfl, rfl, _⟩ := h
              exact applyD_cons_self f k c c1 rrs rcs' hknot
          rw [hfin]
          refine ⟨by simp [akeys, hshL.1], ?_⟩
          intro k' c' hl
          by_cases e : k = k'
          · subst e
            simp only [alookup, if_true, Option.some.injEq] at hl
            subst hl
            exact ⟨_, by simp [alookup], hsh1⟩
          · simp only [alookup, e, if_false] at hl
            obtain ⟨c'', hl'', hs''⟩ := hshL.2 k' c' hl
            exact ⟨c'', by simp [alookup, e, hl''], hs''⟩
        · intro k' hk'
          cases sm with
          | true =>
            simp only [if_true, Except.ok.injEq, Prod.mk.injEq] at h
            obtain ⟨_, rfl, _⟩ := h
            exact (mem_akeys_cons k' k c rest).2 (.inr (hkeys k' hk'))
          | false =>
            simp only [Bool.false_eq_true, if_false, Except.ok.injEq, Prod.mk.injEq] at h
            obtain ⟨_, rfl, _⟩ := h
            rcases (mem_akeys_cons k' k c1 rrs).1 hk' with rfl | hk''
            · exact (mem_akeys_cons k' k' c rest).2 (.inl rfl)
            · exact (mem_akeys_cons k' k c rest).2 (.inr (hkeys k' hk''))

/-- THE PRE-MERGE PASS of a stage with any number of operators: the accumulated tree changes only by removals
    at the touched paths, the stage keeps its mapping skeleton (and stays the same object) -/
theorem premerge_ops_frame : ∀ (fuel : Nat) (n : Node) (pre : Path) (s n' : Node) (b : Bool) (into' : Option Node),
    opsStage n = true → n.depth < fuel → premergeF fuel n pre (some s) = .ok (n', b, into') →
    ∃ s', into' = some s' ∧ b = true ∧ Frame s s' (touched pre n) ∧ Shape n n' := by
  intro fuel
  induction fuel with
  | zero => intro n _ _ _ _ _ _ hd; omega
  | succ fuel ih =>
    intro n pre s n' b into' hst hd h
    obtain ⟨f, cs, rfl, _, hn, hcs⟩ := opsStage_comp hst
    have hdl : depthList cs < fuel := by simp only [Node.depth] at hd; omega
    rw [premergeF_dict] at h
    cases hch : premergeChildren (premergeF fuel) pre cs (some s) with
    | error e => simp [hch] at h
    | ok res =>
      obtain ⟨cs', rs, into1⟩ := res
      obtain ⟨s', rfl, hf, hshL, _⟩ := children_frame f pre fuel ih cs s cs' rs into1 hn hcs hdl hch
      simp only [hch, applyResets_dict, Except.ok.injEq, Prod.mk.injEq] at h
      obtain ⟨rfl, rfl, rfl⟩ := h
      refine ⟨s', rfl, rfl, ?_, shape_of_shapeL f hshL⟩
      simpa [touched] using hf

theorem isDict_of_opsStage {n : Node} (h : opsStage n = true) : n.isDict = true := by
  obtain ⟨f, cs, rfl, _, _, _⟩ := opsStage_comp h
  rfl

/-- THE FRAME OF A WHOLE STAGE: the last stage holds any number of operators below plain non-deleting
    mappings; every touched path runs through mappings of the accumulated tree: a path the stage does not
    mention and that is independent of every touched path keeps its data in a successful build -/
theorem ops_frame_last (xs : List Node) (o s r : Node) (hx : xs ≠ [])
    (hs : flattenWith (premergeF (stagesFuel (xs ++ [o]))) xs = .ok s)
    (hst : opsStage o = true) (hbuild : flatten (xs ++ [o]) = .ok r)
    (hX : ∀ x, x ∈ touched [] o → dictAlong x s = true) :
    ∀ t, dictAlong t s = true → divergesLive t o = true → (∀ x, x ∈ touched [] o → indep t x = true) →
      (native r).at? t = (native s).at? t := by
  intro t ht htd hti
  simp only [flatten] at hbuild
  rw [flattenWith_append_eq xs [o] hx (by simp [isDict_of_opsStage hst]) s hs] at hbuild
  simp only [flattenLoop] at hbuild
  cases hp : premergeF (stagesFuel (xs ++ [o])) o [] (some s) with
  | error e => simp [hp] at hbuild
  | ok res =>
    obtain ⟨o', b, into'⟩ := res
    obtain ⟨s', rfl, _, hf, hsh⟩ := premerge_ops_frame _ o [] s o' b into' hst (depth_lt_fuel_last xs o) hp
    simp only [hp] at hbuild
    cases hm : merge s' o' with
    | error e => simp [hm] at hbuild
    | ok r1 =>
      simp only [hm, Except.ok.injEq] at hbuild
      subst hbuild
      obtain ⟨bb, hmf⟩ := merge_ok hm
      obtain ⟨a1, b1⟩ := hf hX
      rw [frame_diverges t _ s' o' r1 bb (a1 t ht) (hsh t htd) hmf]
      exact b1 t hti

end AY.C16P
