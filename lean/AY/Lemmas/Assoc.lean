/-
  AY.Lemmas.Assoc — facts about the association-list primitives of AY.Model.Data
  (`alookup`, `aset`, `aerase`, `renum`) and small `Except` normalisation lemmas.
-/
import AY.Model.Data
namespace AY

/-- keys of an association list -/
def akeys {α : Type} : List (Key × α) → List Key
  | [] => []
  | (k, _) :: rest => k :: akeys rest

/-- no key occurs twice -/
def keysNodup {α : Type} : List (Key × α) → Bool
  | [] => true
  | (k, _) :: rest => !(akeys rest).contains k && keysNodup rest

theorem alookup_none_iff {α : Type} (k : Key) :
    ∀ l : List (Key × α), alookup k l = none ↔ (akeys l).contains k = false
  | [] => by simp [alookup, akeys]
  | (k', v) :: rest => by
    by_cases h : k' = k
    · simp [alookup, akeys, h]
    · have h' : ¬ k = k' := fun e => h e.symm
      simp [alookup, akeys, h, h', alookup_none_iff k rest]

theorem aset_of_lookup_none {α : Type} (k : Key) (v : α) :
    ∀ l : List (Key × α), alookup k l = none → aset k v l = l ++ [(k, v)]
  | [], _ => rfl
  | (k', v') :: rest, h => by
    by_cases hk : k' = k
    · simp [alookup, hk] at h
    · simp [alookup, hk] at h
      simp [aset, hk, aset_of_lookup_none k v rest h]

theorem keysOf_append {α : Type} : ∀ l₁ l₂ : List (Key × α), akeys (l₁ ++ l₂) = akeys l₁ ++ akeys l₂
  | [], _ => rfl
  | (k, v) :: rest, l₂ => by simp [akeys, keysOf_append rest l₂]

theorem alookup_append_none {α : Type} (k : Key) (l₁ l₂ : List (Key × α))
    (h₁ : alookup k l₁ = none) (h₂ : alookup k l₂ = none) : alookup k (l₁ ++ l₂) = none := by
  rw [alookup_none_iff] at *
  simp [keysOf_append] at *
  exact ⟨h₁, h₂⟩

theorem keysOf_aset_of_some {α : Type} (k : Key) (v : α) :
    ∀ l : List (Key × α), (alookup k l).isSome → akeys (aset k v l) = akeys l
  | [], h => by simp [alookup] at h
  | (k', v') :: rest, h => by
    by_cases hk : k' = k
    · simp [aset, akeys, hk]
    · simp [alookup, hk] at h
      simp [aset, akeys, hk, keysOf_aset_of_some k v rest h]

theorem length_aset_of_some {α : Type} (k : Key) (v : α) :
    ∀ l : List (Key × α), (alookup k l).isSome → (aset k v l).length = l.length
  | [], h => by simp [alookup] at h
  | (k', v') :: rest, h => by
    by_cases hk : k' = k
    · simp [aset, hk]
    · simp [alookup, hk] at h
      simp [aset, hk, length_aset_of_some k v rest h]

theorem length_keysOf {α : Type} : ∀ l : List (Key × α), (akeys l).length = l.length
  | [] => rfl
  | (k, v) :: rest => by simp [akeys, length_keysOf rest]

/-! ### `Except` normalisation -/

theorem exceptMap_ok {ε α β} (g : α → β) (a : α) : (Except.ok a : Except ε α).map g = .ok (g a) := rfl
theorem exceptMap_error {ε α β} (g : α → β) (e : ε) : (Except.error e : Except ε α).map g = .error e := rfl

end AY
