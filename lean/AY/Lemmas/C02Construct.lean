/-
  AY.Lemmas.C02Construct — the loader on tag-free documents: construction succeeds, the data of the
  node tree is the document's data, and the tree satisfies the invariants `plainT` / `plainO`.
-/
import AY.Lemmas.PlainInv
namespace AY

theorem propagate_empty (f : Flags) (k : CompKind) : propagate (.comp f k []) = .comp f k [] := by
  simp only [propagate]
  cases childKw f k <;> simp [applyKwList]

theorem adopt_empty {pf : Flags} {pk : CompKind} {kw : ChildKw} (h : childKw pf pk = some kw)
    (f : Flags) (k : CompKind) : adopt pf pk (.comp f k []) = .comp (updFlags kw f) k [] := by
  simp [adopt, inheritInto, h, Node.setFlags, Node.flags, propagate_empty]

theorem adopt_leaf {pf : Flags} {pk : CompKind} {kw : ChildKw} (h : childKw pf pk = some kw)
    (f : Flags) (lk : LeafKind) : adopt pf pk (.leaf f lk) = .leaf (updFlags kw f) lk := by
  simp [adopt, inheritInto, h, Node.setFlags, Node.flags, propagate]

theorem bareFlags_plain (env : Env) : flagsPlain (bareFlags env) = true := by
  simp [flagsPlain, bareFlags]

theorem rawPlainSub_scalar {t kw v} (h : rawPlainSub (.scalar t kw v) = true) : t = .none := by
  simp [rawPlainSub] at h; exact h.1.1
theorem rawPlainSub_seq {t kw items} (h : rawPlainSub (.seq t kw items) = true) :
    t = .none ∧ rawPlainSeq items = true := by
  simp [rawPlainSub] at h; exact ⟨h.1.1, h.2⟩
theorem rawPlainSub_map {t kw items} (h : rawPlainSub (.map t kw items) = true) :
    t = .none ∧ keysNodup items = true ∧ rawPlainMap items = true := by
  simp [rawPlainSub] at h; exact ⟨h.1.1.1, h.1.2, h.2⟩

mutual
theorem constructTD_plain (env : Env) : ∀ (r : Raw) (pf : Flags) (pk : CompKind),
    rawPlainSub r = true → flagsPlain pf = true → (pk = .dict ∨ pk = .list) →
    ∃ n, constructTD env (some (pf, pk)) r = .ok n ∧ native n = plainOfRaw r ∧ plainT n = true ∧
      (pk = .dict → pf.iDel = none → dictsLive n = true)
  | .scalar t kw v, pf, pk, hr, hpf, hpk => by
    have ht := rawPlainSub_scalar hr
    subst ht
    obtain ⟨ckw, e, hkw, _⟩ := childKw_plain hpf hpk
    refine ⟨.leaf (updFlags ckw (bareFlags env)) (.scalar v.toScalar), ?_, ?_, ?_, ?_⟩
    · simp only [constructTD, adoptBy, adopt_leaf e]
    · simp [native, plainOfRaw]
    · simpa [plainT] using updFlags_plain hkw (bareFlags_plain env)
    · intros; simp [dictsLive]
  | .seq t kw items, pf, pk, hr, hpf, hpk => by
    obtain ⟨ht, hitems⟩ := rawPlainSub_seq hr
    subst ht
    obtain ⟨ckw, e, hkw, _⟩ := childKw_plain hpf hpk
    have hf' := updFlags_plain hkw (bareFlags_plain env)
    obtain ⟨ns, h1, h2, h3, h4⟩ := constructTDList_plain env items _ .list 0 hitems hf' (.inr rfl)
    refine ⟨.comp (updFlags ckw (bareFlags env)) .list ns, ?_, ?_, ?_, ?_⟩
    · simp only [constructTD, adoptBy, adopt_empty e, h1]
    · simp [native, plainOfRaw, CompKind.isDictFam, h2]
    · simp [plainT, hf', h3, h4]
    · intros; simp [dictsLive]
  | .map t kw items, pf, pk, hr, hpf, hpk => by
    obtain ⟨ht, hnd, hitems⟩ := rawPlainSub_map hr
    subst ht
    obtain ⟨ckw, e, hkw, hdel⟩ := childKw_plain hpf hpk
    have hf' := updFlags_plain hkw (bareFlags_plain env)
    obtain ⟨ns, h1, h2, h3, h4⟩ := constructTDMap_plain env items _ .dict [] hitems hnd
      (fun _ _ => rfl) hf' (.inl rfl)
    refine ⟨.comp (updFlags ckw (bareFlags env)) .dict ns, ?_, ?_, ?_, ?_⟩
    · simp only [constructTD, adoptBy, adopt_empty e, h1, List.nil_append]
    · simp [native, plainOfRaw, CompKind.isDictFam, h2]
    · simp [plainT, hf', h3]
    · intro hd hi
      have : (updFlags ckw (bareFlags env)).iDel = none := by
        rw [updFlags_iDel, hdel, hd]; simpa using hi
      simp [dictsLive, this, h4 rfl this]
theorem constructTDList_plain (env : Env) : ∀ (items : List Raw) (pf : Flags) (pk : CompKind) (i : Nat),
    rawPlainSeq items = true → flagsPlain pf = true → (pk = .dict ∨ pk = .list) →
    ∃ ns, constructTDList env pf pk i items = .ok ns ∧ nativeVals ns = plainOfRawList items ∧
      plainTList ns = true ∧ listKeys i ns = true
  | [], _, _, _, _, _, _ => ⟨[], rfl, rfl, rfl, rfl⟩
  | r :: rest, pf, pk, i, hr, hpf, hpk => by
    have hr' : rawPlainSub r = true ∧ rawPlainSeq rest = true := by simpa [rawPlainSeq] using hr
    obtain ⟨n, h1, h2, h3, _⟩ := constructTD_plain env r pf pk hr'.1 hpf hpk
    obtain ⟨ns, g1, g2, g3, g4⟩ := constructTDList_plain env rest pf pk (i + 1) hr'.2 hpf hpk
    refine ⟨(Key.int (i : Int), n) :: ns, ?_, ?_, ?_, ?_⟩
    · simp only [constructTDList, h1, g1]
    · simp [nativeVals, plainOfRawList, h2, g2]
    · simp [plainTList, h3, g3]
    · simp [listKeys, g4]
theorem constructTDMap_plain (env : Env) : ∀ (items : List (Key × Raw)) (pf : Flags) (pk : CompKind)
    (acc : List (Key × Node)),
    rawPlainMap items = true → keysNodup items = true →
    (∀ k, k ∈ akeys items → alookup k acc = none) →
    flagsPlain pf = true → (pk = .dict ∨ pk = .list) →
    ∃ ns, constructTDMap env pf pk items acc = .ok (acc ++ ns) ∧ nativeList ns = plainOfRawMap items ∧
      plainTList ns = true ∧ (pk = .dict → pf.iDel = none → dictsLiveList ns = true)
  | [], _, _, acc, _, _, _, _, _ => ⟨[], by simp [constructTDMap], rfl, rfl, fun _ _ => rfl⟩
  | (k, r) :: rest, pf, pk, acc, hr, hnd, hfresh, hpf, hpk => by
    have hr' : rawPlainSub r = true ∧ rawPlainMap rest = true := by simpa [rawPlainMap] using hr
    have hnd' : (akeys rest).contains k = false ∧ keysNodup rest = true := by
      simpa [keysNodup] using hnd
    obtain ⟨n, h1, h2, h3, h4⟩ := constructTD_plain env r pf pk hr'.1 hpf hpk
    have hk : alookup k acc = none := hfresh k (by simp [akeys])
    have hfresh' : ∀ k', k' ∈ akeys rest → alookup k' (aset k n acc) = none := by
      intro k' hk'
      rw [aset_of_lookup_none k n acc hk]
      apply alookup_append_none
      · exact hfresh k' (by simp [akeys, hk'])
      · have : k ≠ k' := by
          intro e; subst e
          have := hnd'.1
          simp at this
          exact this hk'
        simp [alookup, this]
    obtain ⟨ns, g1, g2, g3, g4⟩ := constructTDMap_plain env rest pf pk (aset k n acc) hr'.2 hnd'.2
      hfresh' hpf hpk
    refine ⟨(k, n) :: ns, ?_, ?_, ?_, ?_⟩
    · simp only [constructTDMap, h1, g1]
      rw [aset_of_lookup_none k n acc hk]
      simp
    · simp [nativeList, plainOfRawMap, h2, g2]
    · simp [plainTList, h3, g3]
    · intro hd hi
      simp [dictsLiveList, h4 hd hi, g4 hd hi]
end

/-- the loader on a tag-free mapping document -/
theorem construct_plain (env : Env) (r : Raw) (hr : rawPlain r = true) :
    ∃ n, construct env r = .ok n ∧ native n = plainOfRaw r ∧ plainO n = true ∧ n.isDict = true := by
  cases r with
  | scalar t kw v => simp [rawPlain] at hr
  | seq t kw items => simp [rawPlain] at hr
  | map t kw items =>
    have hr' : rawPlainSub (.map t kw items) = true := by simpa [rawPlain] using hr
    obtain ⟨ht, hnd, hitems⟩ := rawPlainSub_map hr'
    subst ht
    obtain ⟨ns, h1, h2, h3, h4⟩ := constructTDMap_plain env items (bareFlags env) .dict [] hitems hnd
      (fun _ _ => rfl) (bareFlags_plain env) (.inl rfl)
    refine ⟨.comp (bareFlags env) .dict ns, ?_, ?_, ?_, ?_⟩
    · simp only [construct, constructTD, adoptBy, h1, List.nil_append]
    · simp [native, plainOfRaw, CompKind.isDictFam, h2]
    · have : (bareFlags env).iDel = none := rfl
      simp [plainO, plainT, bareFlags_plain, h3, dictsLive, this, h4 rfl this]
    · rfl

end AY
