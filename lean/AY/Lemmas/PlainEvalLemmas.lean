/-
  AY.Lemmas.PlainEvalLemmas — evaluation of trees made of plain containers and scalars (C11).

  `Val.toPlain?` reads an evaluated value back as plain data (`none` when the value contains
  anything but scalars, dicts and lists). For a tree of plain kinds with pairwise distinct keys
  `evalNodeF` succeeds and `toPlain?` of the result is `native` of the tree.
-/
import AY.Lemmas.EvalLemmas
import AY.Spec.Plain
namespace AY

/-! ### reading a value back as plain data -/

mutual
/-- the plain data a value consists of; `none` if it contains the result of an execution, a
    symbol, a path object or an include list -/
def Val.toPlain? : Val → Option Plain
  | .scalar s => some (.scalar s)
  | .dict _ items =>
    match itemsToPlain? items with
    | some l => some (.dict l)
    | none => none
  | .list _ items =>
    match valsToPlain? items with
    | some l => some (.list l)
    | none => none
  | _ => none
def itemsToPlain? : List (Key × Val) → Option (List (Key × Plain))
  | [] => some []
  | (k, v) :: rest =>
    match v.toPlain?, itemsToPlain? rest with
    | some p, some l => some ((k, p) :: l)
    | _, _ => none
def valsToPlain? : List Val → Option (List Plain)
  | [] => some []
  | v :: rest =>
    match v.toPlain?, valsToPlain? rest with
    | some p, some l => some (p :: l)
    | _, _ => none
end

/-! ### plain trees -/

/-- container classes that evaluate to a dict / list of their evaluated children -/
def plainComp : CompKind → Bool
  | .dict | .list | .append | .extend | .stream => true
  | _ => false

mutual
/-- only plain containers and scalar leaves -/
def plainTree : Node → Bool
  | .leaf _ (.scalar _) => true
  | .leaf _ _ => false
  | .comp _ k cs => plainComp k && plainTreeList cs
def plainTreeList : List (Key × Node) → Bool
  | [] => true
  | (_, c) :: rest => plainTree c && plainTreeList rest
end

mutual
/-- the children of every container have pairwise distinct keys (always true for trees built by
    the library: `_children` is a Python dict) -/
def uniqueKeys : Node → Bool
  | .leaf .. => true
  | .comp _ _ cs => uniqueKeysList cs
def uniqueKeysList : List (Key × Node) → Bool
  | [] => true
  | (k, c) :: rest => !(ahas k rest) && uniqueKeys c && uniqueKeysList rest
end

theorem ahas_false_ne {α : Type} {k : Key} : ∀ {l : List (Key × α)}, ahas k l = false →
    ∀ k' v, (k', v) ∈ l → k' ≠ k
  | [], _, k', v, hm => by cases hm
  | (k0, v0) :: rest, h, k', v, hm => by
    have h' : alookup k ((k0, v0) :: rest) = none := by simpa [ahas] using h
    unfold alookup at h'
    split at h'
    · cases h'
    · rename_i hne
      rcases List.mem_cons.1 hm with heq | hm
      · cases heq; exact hne
      · exact ahas_false_ne (l := rest) (by simp [ahas, h']) k' v hm

/-! ### freshness and framing -/

/-- nothing at or below `path` is memoised or under evaluation -/
def FreshAt (path : Path) (st : EvSt) : Prop :=
  ∀ q, path <+: q → plookup q st.cache = none ∧ q ∉ st.inProgress

/-- only paths at or below `path` changed in the memo table -/
def Frame (path : Path) (st st' : EvSt) : Prop :=
  st'.inProgress = st.inProgress ∧ ∀ q, ¬ path <+: q → plookup q st'.cache = plookup q st.cache

theorem prefix_snoc_key {path q : Path} {k k' : Key}
    (h1 : (path ++ [k]) <+: q) (h2 : (path ++ [k']) <+: q) : k = k' := by
  have hp := List.prefix_of_prefix_length_le h1 h2 (by simp)
  have heq := hp.eq_of_length (by simp)
  have := List.append_cancel_left heq
  simpa using this

theorem prefix_of_snoc {path q : Path} {k : Key} (h : (path ++ [k]) <+: q) : path <+: q :=
  List.IsPrefix.trans (List.prefix_append _ _) h

theorem snoc_prefix_ne {path : Path} {k : Key} : ¬ (path ++ [k]) <+: path := by
  intro h
  have := h.length_le
  simp at this
  omega

/-! ### unfolding lemmas -/

theorem evalNodeF_fresh_eq (root : Node) (w : World) (fuel : Nat) (n : Node) (path : Path) (st : EvSt)
    (hc : plookup path st.cache = none) (hp : path ∉ st.inProgress) :
    evalNodeF root w (fuel + 1) false n path st =
      match evalImpl (evalNodeF root w fuel) root w false n path (enter path (bump n st)) with
      | .error e => .error e
      | .ok (v, st2) => .ok (v, finish n path v (bump n st).unsafeSeen st2) := by
  rw [evalNodeF_succ]
  simp [hc, hp]
  rfl

theorem evalImpl_plainComp (rec : Rec) (root : Node) (w : World) (rs : Bool) (f : Flags) (k : CompKind)
    (cs : List (Key × Node)) (path : Path) (st : EvSt) (hk : plainComp k = true) :
    evalImpl rec root w rs (.comp f k cs) path st =
      match evalItems rec rs path cs st with
      | .error e => .error e
      | .ok (items, st1) =>
        .ok (if k.isDictFam then .dict path items else .list path (items.map (·.2)), st1) := by
  cases k <;> simp [plainComp] at hk <;> rfl

/-! ### the main lemma -/

/-- children list, given the node lemma for the recursive evaluator -/
theorem plain_evalItems {root : Node} {w : World} {fuel : Nat} {path : Path}
    (ih : ∀ (n : Node) (p : Path) (st : EvSt), n.size ≤ fuel → plainTree n = true → uniqueKeys n = true →
      FreshAt p st → ∃ v st', evalNodeF root w fuel false n p st = .ok (v, st') ∧
        v.toPlain? = some (native n) ∧ Frame p st st') :
    ∀ (cs : List (Key × Node)) (st : EvSt), sizeList cs ≤ fuel → plainTreeList cs = true →
    uniqueKeysList cs = true → (∀ key c, (key, c) ∈ cs → FreshAt (path ++ [key]) st) →
    ∃ items st', evalItems (evalNodeF root w fuel) false path cs st = .ok (items, st') ∧
      itemsToPlain? items = some (nativeList cs) ∧
      valsToPlain? (items.map (·.2)) = some (nativeVals cs) ∧
      st'.inProgress = st.inProgress ∧
      ∀ q, (∀ key c, (key, c) ∈ cs → ¬ (path ++ [key]) <+: q) → plookup q st'.cache = plookup q st.cache
  | [], st, _, _, _, _ => ⟨[], st, rfl, rfl, rfl, rfl, fun _ _ => rfl⟩
  | (k, c) :: rest, st, hsz, hpl, huk, hfresh => by
    simp only [sizeList] at hsz
    simp only [plainTreeList, Bool.and_eq_true] at hpl
    simp only [uniqueKeysList, Bool.and_eq_true, Bool.not_eq_true'] at huk
    obtain ⟨v, st1, hev, hvp, hfr⟩ := ih c (path ++ [k]) st (by omega) hpl.1 huk.1.2
      (hfresh k c List.mem_cons_self)
    have hne := ahas_false_ne huk.1.1
    have hfresh1 : ∀ key c', (key, c') ∈ rest → FreshAt (path ++ [key]) st1 := by
      intro key c' hm q hq
      have h0 := hfresh key c' (List.mem_cons_of_mem _ hm) q hq
      have hnp : ¬ (path ++ [k]) <+: q := fun hk => hne key c' hm (prefix_snoc_key hq hk)
      rw [hfr.2 q hnp, hfr.1]
      exact h0
    obtain ⟨items, st2, hev2, hip, hvs, hprog, hcache⟩ :=
      plain_evalItems ih rest st1 (by omega) hpl.2 huk.2 hfresh1
    refine ⟨(k, v) :: items, st2, ?_, ?_, ?_, hprog.trans hfr.1, ?_⟩
    · simp only [evalItems, hev, hev2]
    · simp only [itemsToPlain?, hvp, hip, nativeList]
    · simp only [List.map_cons, valsToPlain?, hvp, hvs, nativeVals]
    · intro q hq
      rw [hcache q (fun key c' hm => hq key c' (List.mem_cons_of_mem _ hm))]
      exact hfr.2 q (hq k c List.mem_cons_self)

/-- A tree of plain kinds with distinct keys evaluates (given fuel ≥ its size, on a state in which
    nothing below `path` is memoised) to its native data, touching only the memo entries below
    `path`. -/
theorem plain_evalNodeF (root : Node) (w : World) :
    ∀ (fuel : Nat) (n : Node) (path : Path) (st : EvSt), n.size ≤ fuel → plainTree n = true →
    uniqueKeys n = true → FreshAt path st →
    ∃ v st', evalNodeF root w fuel false n path st = .ok (v, st') ∧
      v.toPlain? = some (native n) ∧ Frame path st st'
  | 0, n, path, st, hsz, _, _, _ => by
    cases n <;> simp [Node.size] at hsz
  | fuel + 1, n, path, st, hsz, hpl, huk, hfresh => by
    have hc : plookup path st.cache = none := (hfresh path List.prefix_rfl).1
    have hp : path ∉ st.inProgress := (hfresh path List.prefix_rfl).2
    rw [evalNodeF_fresh_eq root w fuel n path st hc hp]
    have hframe : ∀ (v : Val) (st2 : EvSt), st2.inProgress = path :: st.inProgress →
        (∀ q, ¬ path <+: q → plookup q st2.cache = plookup q st.cache) →
        Frame path st (finish n path v (bump n st).unsafeSeen st2) := by
      intro v st2 h1 h2
      refine ⟨by simp [h1], ?_⟩
      intro q hq
      have hne : path ≠ q := fun e => hq (e ▸ List.prefix_rfl)
      simp only [finish_cache, plookup_cons, hne, if_false]
      exact h2 q hq
    match n, hsz, hpl, huk with
    | .leaf f (.scalar s), _, _, _ =>
      refine ⟨.scalar s, _, rfl, rfl, hframe _ _ (by simp) (by simp)⟩
    | .comp f k cs, hsz, hpl, huk =>
      simp only [plainTree, Bool.and_eq_true] at hpl
      simp only [uniqueKeys] at huk
      simp only [Node.size] at hsz
      have hfresh1 : ∀ key c, (key, c) ∈ cs →
          FreshAt (path ++ [key]) (enter path (bump (.comp f k cs) st)) := by
        intro key c _ q hq
        have h0 := hfresh q (prefix_of_snoc hq)
        simp only [enter_cache, bump_cache, enter_inProgress, bump_inProgress, List.mem_cons, not_or]
        refine ⟨h0.1, ?_, h0.2⟩
        intro e; subst e; exact snoc_prefix_ne hq
      obtain ⟨items, st2, hev, hip, hvs, hprog, hcache⟩ :=
        plain_evalItems (path := path) (plain_evalNodeF root w fuel) cs _ (by omega) hpl.2 huk hfresh1
      rw [evalImpl_plainComp _ _ _ _ _ _ _ _ _ hpl.1, hev]
      refine ⟨_, _, rfl, ?_, hframe _ _ (by simpa using hprog) ?_⟩
      · simp only [native]
        split
        · simp only [Val.toPlain?, hip]
        · simp only [Val.toPlain?, hvs]
      · intro q hq
        rw [hcache q (fun key c _ hk => hq (prefix_of_snoc hk))]
        simp

/-! ### containers keep their keys -/

theorem evalItems_keys {rec : Rec} {rs : Bool} {path : Path} :
    ∀ (cs : List (Key × Node)) (st : EvSt) (items : List (Key × Val)) (st' : EvSt),
    evalItems rec rs path cs st = .ok (items, st') → items.map (·.1) = cs.map (·.1)
  | [], st, items, st', h => by
    simp [evalItems] at h
    obtain ⟨rfl, _⟩ := h
    rfl
  | (k, c) :: rest, st, items, st', h => by
    unfold evalItems at h
    split at h
    · cases h
    · rename_i v st1 h1
      split at h
      · cases h
      · rename_i vs st2 h2
        cases h
        simp [evalItems_keys rest st1 vs st' h2]

/-! ### plain trees have no `!required` node -/

mutual
theorem requiredPaths_plain : ∀ (n : Node) (p : Path), plainTree n = true → requiredPaths p n = []
  | .leaf f lk, p, h => by cases lk <;> simp [plainTree] at h <;> rfl
  | .comp f k cs, p, h => by
    simp only [plainTree, Bool.and_eq_true] at h
    simp only [requiredPaths]
    exact requiredPathsList_plain cs p h.2
theorem requiredPathsList_plain : ∀ (cs : List (Key × Node)) (p : Path), plainTreeList cs = true →
    requiredPathsList p cs = []
  | [], p, _ => rfl
  | (k, c) :: rest, p, h => by
    simp only [plainTreeList, Bool.and_eq_true] at h
    simp only [requiredPathsList, requiredPaths_plain c _ h.1, requiredPathsList_plain rest p h.2,
      List.append_nil]
end

/-! ### with distinct keys `Placed` is `getNode` -/

theorem uniqueKeysList_mem {key : Key} {c : Node} :
    ∀ {cs : List (Key × Node)}, uniqueKeysList cs = true → (key, c) ∈ cs →
      uniqueKeys c = true ∧ alookup key cs = some c
  | [], _, hm => by cases hm
  | (k0, c0) :: rest, huk, hm => by
    simp only [uniqueKeysList, Bool.and_eq_true, Bool.not_eq_true'] at huk
    rcases List.mem_cons.1 hm with heq | hm
    · cases heq
      exact ⟨huk.1.2, by simp [alookup]⟩
    · have ih := uniqueKeysList_mem huk.2 hm
      have hne : k0 ≠ key := fun e => ahas_false_ne huk.1.1 key c hm e.symm
      exact ⟨ih.1, by simp [alookup, hne, ih.2]⟩

theorem getNode_append : ∀ (p q : Path) (n : Node),
    getNode n (p ++ q) = match getNode n p with
      | some m => getNode m q
      | none => none
  | [], q, n => by simp [getNode]
  | key :: rest, q, .leaf .. => by simp [getNode]
  | key :: rest, q, .comp f k cs => by
    simp only [List.cons_append, getNode]
    cases alookup key cs with
    | none => rfl
    | some c => exact getNode_append rest q c

theorem Placed.getNode_uniq {root : Node} (huk : uniqueKeys root = true) {m : Node} {p : Path}
    (hp : Placed root m p) : getNode root p = some m ∧ uniqueKeys m = true := by
  induction hp with
  | root => exact ⟨rfl, huk⟩
  | child hpar hm ih =>
    rename_i f k cs p key c
    have hu : uniqueKeysList cs = true := by simpa [uniqueKeys] using ih.2
    have hc := uniqueKeysList_mem hu hm
    refine ⟨?_, hc.1⟩
    rw [getNode_append, ih.1]
    simp [getNode, hc.2]

/-- For a tree with pairwise distinct keys, `Placed` is exactly the model's `get_node`. -/
theorem placed_iff_getNode {root : Node} (huk : uniqueKeys root = true) (m : Node) (p : Path) :
    Placed root m p ↔ getNode root p = some m :=
  ⟨fun h => (h.getNode_uniq huk).1, Placed.of_getNode⟩

end AY
