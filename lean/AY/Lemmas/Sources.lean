/-
  AY.Lemmas.Sources — helper lemmas for AY/Props/C06_Sources.lean (model: AY/Model/Sources.lean).
-/
import AY.Model.Sources
namespace AY
namespace Sources

/-! ### `openStr` / `openStep` by outcome of `open` -/

theorem openStr_content {S : FileSys} {s t : String} (cur : Option String) (raw : Option Bool)
    (h : openRead S s = .content t) : openStr S cur s raw = (.ok t, some s) := by
  simp [openStr, h]

theorem openStr_notFound {S : FileSys} {s : String} (cur : Option String) (raw : Option Bool)
    (h : openRead S s = .notFound) :
    openStr S cur s raw = (fallback raw s (.fileNotFound (S.expanduser s)) false, cur) := by
  simp [openStr, h]

theorem openStr_osError {S : FileSys} {s : String} {n : Nat} (cur : Option String) (raw : Option Bool)
    (h : openRead S s = .osError n) :
    openStr S cur s raw = (fallback raw s (.osError n (S.expanduser s)) (n != 22 && n != 36), cur) := by
  simp [openStr, h]

theorem openStr_osSub {S : FileSys} {s c : String} (cur : Option String) (raw : Option Bool)
    (h : openRead S s = .osSub c) :
    openStr S cur s raw = (.error (.osSub c (S.expanduser s)), cur) := by
  simp [openStr, h, fallback]

theorem openStr_readError {S : FileSys} {s : String} (cur : Option String) (raw : Option Bool)
    (h : openRead S s = .readError) :
    openStr S cur s raw = (.error (.decode (S.expanduser s)), cur) := by
  simp [openStr, h]

/-- the outcome does not depend on `_current_file` at entry -/
theorem openStr_fst (S : FileSys) (cur cur' : Option String) (s : String) (raw : Option Bool) :
    (openStr S cur s raw).1 = (openStr S cur' s raw).1 := by
  unfold openStr; cases openRead S s <;> rfl

theorem openStep_fst (S : FileSys) (cur cur' : Option String) (src : SourceArg) (raw : Option Bool) :
    (openStep S cur src raw).1 = (openStep S cur' src raw).1 := by
  cases src <;> simp only [openStep] <;> split <;> first | rfl | exact openStr_fst ..

/-- `_current_file` after the open block: unchanged, or the block read the file -/
theorem openStr_snd (S : FileSys) (cur : Option String) (s : String) (raw : Option Bool) :
    (openStr S cur s raw).2 = cur ∨ ((openStr S cur s raw).2 = some s ∧ ∃ t, openRead S s = .content t) := by
  unfold openStr
  cases openRead S s <;> simp

/-- with `raw_yaml=True` the file system is not consulted -/
theorem openStep_rawTrue_str (S : FileSys) (cur : Option String) (s : String) :
    openStep S cur (.str s) (some true) = (.ok s, cur) := by
  simp [openStep, rawTrue]

/-! ### `addSource` -/

theorem addSource_of_ok {δ : Type} {S : FileSys} (P : Parser δ) (env : Env) (st : BState δ) (a : Args)
    {text : String} {cur : Option String} (h : openStep S st.currentFile a.src a.raw = (.ok text, cur)) :
    addSource S P env st a =
      ({ currentFile := none,
         stages := st.stages ++ (P ⟨text, recordedName a.filename cur, effSafe env a.safe⟩).1,
         calls := st.calls ++ [⟨text, recordedName a.filename cur, effSafe env a.safe⟩] },
       if (P ⟨text, recordedName a.filename cur, effSafe env a.safe⟩).2 then some .parsing else none) := by
  simp [addSource, h]

theorem addSource_of_error {δ : Type} {S : FileSys} (P : Parser δ) (env : Env) (st : BState δ) (a : Args)
    {e : SrcErr} {cur : Option String} (h : openStep S st.currentFile a.src a.raw = (.error e, cur)) :
    addSource S P env st a = ({ st with currentFile := cur }, some e) := by
  simp [addSource, h]

/-- a YAML text given with `raw_yaml=True` -/
theorem addSource_rawTrue {δ : Type} (S : FileSys) (P : Parser δ) (env : Env) (st : BState δ) (t : String)
    (filename : Option String) (safe : Option Bool) :
    addSource S P env st ⟨.str t, some true, filename, safe⟩ =
      ({ currentFile := none,
         stages := st.stages ++ (P ⟨t, recordedName filename st.currentFile, effSafe env safe⟩).1,
         calls := st.calls ++ [⟨t, recordedName filename st.currentFile, effSafe env safe⟩] },
       if (P ⟨t, recordedName filename st.currentFile, effSafe env safe⟩).2 then some .parsing else none) :=
  addSource_of_ok P env st _ (openStep_rawTrue_str S st.currentFile t)

/-- the calls made so far are never dropped; `add_source` adds none or one -/
theorem addSource_calls {δ : Type} (S : FileSys) (P : Parser δ) (env : Env) (st : BState δ) (a : Args) :
    (addSource S P env st a).1.calls = st.calls ∨
      ∃ c, (addSource S P env st a).1.calls = st.calls ++ [c] ∧ (addSource S P env st a).1.currentFile = none := by
  unfold addSource
  rcases h : openStep S st.currentFile a.src a.raw with ⟨r, cur⟩
  cases r with
  | error e => exact .inl rfl
  | ok text => exact .inr ⟨_, rfl, rfl⟩

/-- an exception raised by the open block leaves `_current_file` as it was (the name is stored only after a
    successful read) -/
theorem openStr_error_snd {S : FileSys} {cur : Option String} {s : String} {raw : Option Bool} {e : SrcErr}
    (he : (openStr S cur s raw).1 = .error e) : (openStr S cur s raw).2 = cur := by
  unfold openStr at he ⊢
  cases h : openRead S s <;> simp_all

theorem openStep_error_snd {S : FileSys} {cur : Option String} {src : SourceArg} {raw : Option Bool} {e : SrcErr}
    (he : (openStep S cur src raw).1 = .error e) : (openStep S cur src raw).2 = cur := by
  cases src with
  | fileObj c => by_cases hr : rawTrue raw = true <;> simp [openStep, hr]
  | path s =>
    by_cases hr : rawTrue raw = true
    · simp [openStep, hr]
    · simp only [openStep, if_neg hr] at he ⊢
      exact openStr_error_snd he
  | str s =>
    by_cases hr : rawTrue raw = true
    · simp [openStep, hr] at he
    · simp only [openStep, if_neg hr] at he ⊢
      exact openStr_error_snd he

theorem addLoop_singleton {δ : Type} (S : FileSys) (P : Parser δ) (env : Env) (st : BState δ) (a : Args) :
    addLoop S P env st [a] = addSource S P env st a := by
  simp only [addLoop]
  rcases addSource S P env st a with ⟨st', _ | e⟩ <;> rfl

/-! ### `zipArgs` -/

theorem zipArgs_map (args : List Args) :
    zipArgs (args.map (·.src)) (args.map (·.raw)) (args.map (·.filename)) (args.map (·.safe)) = args := by
  induction args with
  | nil => rfl
  | cons a rest ih => simp only [List.map_cons, zipArgs, ih]

theorem zipArgs_replicate (ss : List SourceArg) (r : Option Bool) (f : Option String) (x : Option Bool) :
    zipArgs ss (List.replicate ss.length r) (List.replicate ss.length f) (List.replicate ss.length x) =
      ss.map (fun s => ⟨s, r, f, x⟩) := by
  induction ss with
  | nil => rfl
  | cons s rest ih => simp only [List.length_cons, List.replicate_succ, zipArgs, ih, List.map_cons]

theorem broadcast_scalar {α : Type} (n : Nat) (nm : String) (a : α) :
    broadcast n nm (.scalar a) = .ok (List.replicate n a) := rfl

theorem broadcast_seq_ok {α : Type} {n : Nat} (nm : String) {l : List α} (h : l.length = n) :
    broadcast n nm (.seq l) = .ok l := by
  simp [broadcast, h]

theorem broadcast_seq_bad {α : Type} {n : Nat} (nm : String) {l : List α} (h : l.length ≠ n) :
    broadcast n nm (.seq l) = .error (.lengthMismatch nm) := by
  simp [broadcast, h]

/-! ### `addLoop` over YAML texts -/

/-- n texts given one by one with `raw_yaml=True` under one name, none of which makes the parser raise -/
theorem addLoop_rawTexts {δ : Type} (S : FileSys) (P : Parser δ) (env : Env) (name : Option String) (safe : Option Bool)
    (parts : List String) (hok : ∀ t ∈ parts, (P ⟨t, name, effSafe env safe⟩).2 = false)
    (hname : name ≠ none) (st : BState δ) :
    addLoop S P env st (parts.map (fun t => ⟨.str t, some true, name, safe⟩)) =
      ({ currentFile := if parts = [] then st.currentFile else none,
         stages := st.stages ++ (parts.map (fun t => (P ⟨t, name, effSafe env safe⟩).1)).flatten,
         calls := st.calls ++ parts.map (fun t => ⟨t, name, effSafe env safe⟩) }, none) := by
  induction parts generalizing st with
  | nil => simp [addLoop]
  | cons t rest ih =>
    have hn : ∀ cur, recordedName name cur = name := by
      intro cur; cases name with
      | none => exact absurd rfl hname
      | some f => rfl
    have h1 := addSource_rawTrue S P env st t name safe
    rw [hn, hok t (List.mem_cons_self ..)] at h1
    have h2 : (if false = true then some SrcErr.parsing else none) = none := rfl
    rw [h2] at h1
    simp only [List.map_cons, addLoop, h1]
    rw [ih (fun u hu => hok u (List.mem_cons_of_mem _ hu))]
    by_cases hr : rest = [] <;> simp [hr, List.append_assoc]

end Sources
end AY
