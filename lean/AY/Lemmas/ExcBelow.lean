/-
  AY.Lemmas.ExcBelow — the exceptions handed to `_require_all_new` in the key loop of
  `ComposedNode.on_merge_impl` (`excBelow key removed`): stripping the key from the removed paths
  and checking the child with paths relative to it computes what the Python code computes with
  absolute paths (`value.ayns._require_all_new(path + [key], …, exceptions=removed)`).
-/
import AY.Model.Merge
namespace AY

theorem mem_excBelow (k : Key) (q : Path) : ∀ exc : List Path, q ∈ excBelow k exc ↔ (k :: q) ∈ exc
  | [] => by simp [excBelow]
  | [] :: rest => by simp [excBelow, mem_excBelow k q rest]
  | (k' :: q') :: rest => by
    by_cases h : k' = k
    · subst h; simp [excBelow, mem_excBelow k' q rest]
    · have : ¬ k = k' := fun e => h e.symm
      simp [excBelow, h, this, mem_excBelow k q rest]

theorem contains_excBelow (k : Key) (q : Path) (exc : List Path) :
    (excBelow k exc).contains q = exc.contains (k :: q) := by
  have := mem_excBelow k q exc
  cases h1 : (excBelow k exc).contains q <;> cases h2 : exc.contains (k :: q) <;> simp_all

mutual
/-- `_require_all_new` started at `key :: p` with the exceptions `exc` = the check started at `p`
    with the exceptions below `key`, the reported path extended by `key` -/
theorem reqNew_excBelow (k : Key) (exc : List Path) : ∀ (p : Path) (n : Node),
    reqNew exc (k :: p) n = (reqNew (excBelow k exc) p n).map (k :: ·)
  | p, .leaf f lk => by
    simp only [reqNew, contains_excBelow]
    split <;> rfl
  | p, .comp f ck cs => by
    simp only [reqNew, contains_excBelow]
    split
    · rfl
    · exact reqNewList_excBelow k exc p cs
theorem reqNewList_excBelow (k : Key) (exc : List Path) : ∀ (p : Path) (cs : List (Key × Node)),
    reqNewList exc (k :: p) cs = (reqNewList (excBelow k exc) p cs).map (k :: ·)
  | _, [] => by simp [reqNewList]
  | p, (k', c) :: rest => by
    simp only [reqNewList, List.cons_append]
    rw [reqNew_excBelow k exc (p ++ [k']) c, reqNewList_excBelow k exc p rest]
    cases reqNew (excBelow k exc) (p ++ [k']) c <;> rfl
end

end AY
