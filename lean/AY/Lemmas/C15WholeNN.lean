/-
  AY.Lemmas.C15WholeNN — the domain of the flag-neutrality clause of C15: trees without `!notnew`.

  `NN n`: no node of `n` has `allow_new = False`, explicit or inherited.  On such trees
  `_require_all_new` never fires, and every operation of the merge and of the builder keeps the
  invariant (the only sources of `implicit_allow_new` are `_get_child_kwargs` of a node of the tree).
-/
import AY.Lemmas.C15WholeCons
import AY.Lemmas.C15Empty
set_option linter.unusedVariables false
namespace AY.C15W

/-- neither `!notnew` nor an inherited `allow_new = False` -/
def nnF (f : Flags) : Bool := f.new != some false && f.iNew != some false
def nnKw (kw : ChildKw) : Bool := kw.iNew != some false

mutual
/-- no node of the tree is `!notnew`-restricted, explicitly or by inheritance -/
def NN : Node → Bool
  | .leaf f _ => nnF f
  | .comp f _ cs => nnF f && nnList cs
def nnList : List (Key × Node) → Bool
  | [] => true
  | (_, c) :: rest => NN c && nnList rest
end

theorem nnList_cons (key : Key) (c : Node) (rest : List (Key × Node)) :
    nnList ((key, c) :: rest) = true ↔ NN c = true ∧ nnList rest = true := by
  simp [nnList]

theorem nnList_iff : ∀ (cs : List (Key × Node)), nnList cs = true ↔ ∀ kv, kv ∈ cs → NN kv.2 = true
  | [] => by simp [nnList]
  | (key, c) :: rest => by
    rw [nnList_cons, nnList_iff rest]
    constructor
    · intro h kv hm
      rcases List.mem_cons.1 hm with rfl | hm
      · exact h.1
      · exact h.2 kv hm
    · intro h
      exact ⟨h (key, c) (by simp), fun kv hm => h kv (List.mem_cons_of_mem _ hm)⟩

theorem NN_comp (f : Flags) (k : CompKind) (cs : List (Key × Node)) :
    NN (.comp f k cs) = true ↔ nnF f = true ∧ nnList cs = true := by
  simp [NN]

theorem NN_flags {n : Node} (h : NN n = true) : nnF n.flags = true := by
  cases n with
  | leaf f k => exact h
  | comp f k cs => exact ((NN_comp f k cs).1 h).1

theorem NN_children {n : Node} (h : NN n = true) : nnList n.children = true := by
  cases n with
  | leaf f k => rfl
  | comp f k cs => exact ((NN_comp f k cs).1 h).2

theorem NN_setFlags {n : Node} {f : Flags} (hf : nnF f = true) (h : NN n = true) : NN (n.setFlags f) = true := by
  cases n with
  | leaf g k => exact hf
  | comp g k cs => rw [Node.setFlags, NN_comp]; exact ⟨hf, ((NN_comp g k cs).1 h).2⟩

theorem nnList_nil : nnList [] = true := rfl

/-! ### `_require_all_new` never fires -/

theorem eNew_of_nnF {f : Flags} (h : nnF f = true) : eNew f = true := by
  cases f with
  | mk prio del new safe iDel iNew iSafe dSafe md src =>
    simp only [nnF, Bool.and_eq_true, bne_iff_ne, ne_eq] at h
    simp only [eNew]
    cases iNew with
    | none => rfl
    | some b => cases b <;> simp_all

mutual
theorem allNew_of_NN : ∀ n : Node, NN n = true → allNew n = true
  | .leaf f k, h => by simp only [allNew]; exact eNew_of_nnF h
  | .comp f k cs, h => by
    rw [NN_comp] at h
    simp only [allNew, Bool.and_eq_true]
    exact ⟨eNew_of_nnF h.1, allNewList_of_nnList cs h.2⟩
theorem allNewList_of_nnList : ∀ cs : List (Key × Node), nnList cs = true → allNewList cs = true
  | [], _ => rfl
  | (k, c) :: rest, h => by
    rw [nnList_cons] at h
    simp only [allNewList, Bool.and_eq_true]
    exact ⟨allNew_of_NN c h.1, allNewList_of_nnList rest h.2⟩
end

theorem reqNew_NN (exc : List Path) (p : Path) {n : Node} (h : NN n = true) : reqNew exc p n = none :=
  reqNew_allNew exc p n (allNew_of_NN n h)

theorem reqNewBelow_NN {n : Node} (h : NN n = true) : reqNewBelow n = none :=
  reqNewBelow_allNew (allNew_of_NN n h)

/-! ### flag bookkeeping -/

theorem nnKw_childKw {f : Flags} {k : CompKind} {kw : ChildKw} (hf : nnF f = true) (h : childKw f k = some kw) :
    nnKw kw = true := by
  cases f with
  | mk prio del new safe iDel iNew iSafe dSafe md src =>
    simp only [nnF, Bool.and_eq_true, bne_iff_ne, ne_eq] at hf
    cases k <;> simp only [childKw, Option.some.injEq, reduceCtorEq] at h <;> subst h <;>
      (simp only [nnKw, bne_iff_ne, ne_eq]; cases new <;> simp_all)

theorem nnF_updFlags {kw : ChildKw} {f : Flags} (hk : nnKw kw = true) (hf : nnF f = true) :
    nnF (updFlags kw f) = true := by
  simp only [nnF, nnKw, updFlags, Bool.and_eq_true] at *
  exact ⟨hf.1, hk⟩

theorem nnF_replaceOtherFlags {w : Flags} (l : Flags) (h : nnF w = true) : nnF (replaceOtherFlags w l) = true := by
  simpa [nnF, replaceOtherFlags, mergeSafe] using h

theorem nnF_replaceSelfFlags {s : Flags} (o : Flags) (h : nnF s = true) : nnF (replaceSelfFlags s o) = true := by
  simpa [nnF, replaceSelfFlags, mergeSafe] using h

mutual
theorem applyKw_nn (kw : ChildKw) (hk : nnKw kw = true) : ∀ (c : Node), NN c = true → NN (applyKw kw c) = true
  | .leaf f k, h => by simp only [applyKw, NN]; exact nnF_updFlags hk h
  | .comp f k cs, h => by
    have h' := (NN_comp f k cs).1 h
    simp only [applyKw]
    split
    · have hf := nnF_updFlags hk h'.1
      split
      · rw [NN_comp]; exact ⟨hf, h'.2⟩
      · rename_i kw' hk'
        rw [NN_comp]; exact ⟨hf, applyKwList_nn kw' (nnKw_childKw hf hk') cs h'.2⟩
    · exact h
theorem applyKwList_nn (kw : ChildKw) (hk : nnKw kw = true) : ∀ (cs : List (Key × Node)), nnList cs = true →
    nnList (applyKwList kw cs) = true
  | [], _ => rfl
  | (key, c) :: rest, h => by
    rw [nnList_cons] at h
    simp only [applyKwList]
    rw [nnList_cons]
    exact ⟨applyKw_nn kw hk c h.1, applyKwList_nn kw hk rest h.2⟩
end

theorem propagate_nn {n : Node} (h : NN n = true) : NN (propagate n) = true := by
  cases n with
  | leaf f k => exact h
  | comp f k cs =>
    have h' := (NN_comp f k cs).1 h
    simp only [propagate]
    split
    · exact h
    · rename_i kw hk
      rw [NN_comp]; exact ⟨h'.1, applyKwList_nn kw (nnKw_childKw h'.1 hk) cs h'.2⟩

mutual
theorem setPrioAll_nn (p : Int) : ∀ (n : Node), NN (setPrioAll p n) = NN n
  | .leaf f k => by simp [setPrioAll, NN, nnF]
  | .comp f k cs => by simp [setPrioAll, NN, nnF, setPrioAllList_nn p cs]
theorem setPrioAllList_nn (p : Int) : ∀ (cs : List (Key × Node)), nnList (setPrioAllList p cs) = nnList cs
  | [] => rfl
  | (key, c) :: rest => by simp [setPrioAllList, nnList, setPrioAll_nn p c, setPrioAllList_nn p rest]
end

theorem inheritInto_nn (p? : Option Int) {kw? : Option ChildKw} (hk : ∀ kw, kw? = some kw → nnKw kw = true)
    {n : Node} (h : NN n = true) : NN (inheritInto p? kw? n) = true := by
  have h1 : NN (match p? with | some p => setPrioAll p n | none => n) = true := by
    cases p? with
    | none => exact h
    | some p => simp only [setPrioAll_nn]; exact h
  simp only [inheritInto]
  cases kw? with
  | none => exact h1
  | some kw => exact propagate_nn (NN_setFlags (nnF_updFlags (hk kw rfl) (NN_flags h1)) h1)

theorem adopt_nn {pf : Flags} (pk : CompKind) (hp : nnF pf = true) {v : Node} (h : NN v = true) :
    NN (adopt pf pk v) = true :=
  propagate_nn (inheritInto_nn none (fun kw e => nnKw_childKw hp e) h)

/-! ### the child mutators -/

theorem aset_nn {key : Key} {n : Node} (hn : NN n = true) : ∀ {acc : List (Key × Node)}, nnList acc = true →
    nnList (aset key n acc) = true
  | [], _ => by simp only [aset]; rw [nnList_cons]; exact ⟨hn, rfl⟩
  | (k', v') :: acc, h => by
    rw [nnList_cons] at h
    simp only [aset]
    split
    · rw [nnList_cons]; exact ⟨hn, h.2⟩
    · rw [nnList_cons]; exact ⟨h.1, aset_nn hn h.2⟩

theorem nnList_snoc {key : Key} {n : Node} (hn : NN n = true) {acc : List (Key × Node)} (h : nnList acc = true) :
    nnList (acc ++ [(key, n)]) = true := by
  rw [nnList_iff] at h ⊢
  intro kv hm
  rcases List.mem_append.1 hm with hm | hm
  · exact h kv hm
  · simp only [List.mem_singleton] at hm; subst hm; exact hn

theorem aerase_nn (k : Key) {cs : List (Key × Node)} (h : nnList cs = true) : nnList (aerase k cs) = true := by
  rw [nnList_iff] at h ⊢
  exact fun kv hm => h kv (c19_mem_aerase hm)

theorem alookup_nn {key : Key} {c : Node} {cs : List (Key × Node)} (h : nnList cs = true)
    (hl : alookup key cs = some c) : NN c = true :=
  (nnList_iff cs).1 h (key, c) (c19_alookup_mem hl)

theorem getChild_nn {sk : CompKind} {name : Key} {acc : List (Key × Node)} {child : Node}
    (hacc : nnList acc = true) (h : getChild sk name acc = some child) : NN child = true := by
  obtain ⟨k, hm⟩ := getChild_mem h
  exact (nnList_iff acc).1 hacc (k, child) hm

theorem setChild_nn {pf : Flags} {pk : CompKind} (hp : nnF pf = true) {name : Key} {v : Node}
    {cs cs' : List (Key × Node)} (hv : NN v = true) (hcs : nnList cs = true)
    (h : setChild pf pk name v cs = .ok cs') : nnList cs' = true := by
  have ha := adopt_nn pk hp hv
  unfold setChild at h
  split at h
  · cases h; exact aset_nn ha hcs
  · split at h
    · cases h
    · cases h; exact aset_nn ha hcs

theorem listDelAt_nn {pf : Flags} {pk : CompKind} (hp : nnF pf = true) (i : Nat) {cs : List (Key × Node)}
    (hcs : nnList cs = true) : nnList (listDelAt pf pk i cs) = true := by
  rw [nnList_iff] at hcs ⊢
  intro kv hm
  have hm2 := c19_mem_renumFrom hm
  rcases List.mem_append.1 hm2 with h1 | h1
  · obtain ⟨x, hx, e⟩ := List.mem_map.1 h1
    rw [← e]
    exact hcs x (List.mem_of_mem_take hx)
  · obtain ⟨x, hx, e⟩ := List.mem_map.1 h1
    rw [← e]
    exact adopt_nn pk hp (hcs x (List.mem_of_mem_drop hx))

theorem removeChild_nn {pf : Flags} {pk : CompKind} (hp : nnF pf = true) {name : Key}
    {cs cs' : List (Key × Node)} (hcs : nnList cs = true) (h : removeChild pf pk name cs = some cs') :
    nnList cs' = true := by
  unfold removeChild at h
  split at h
  · split at h
    · cases h; exact aerase_nn _ hcs
    · cases h
  · split at h
    · cases h
    · cases h; exact listDelAt_nn hp _ hcs

theorem removeChildE_nn {pf : Flags} {pk : CompKind} (hp : nnF pf = true) {name : Key}
    {cs cs' : List (Key × Node)} (hcs : nnList cs = true) (h : removeChildE pf pk name cs = .ok cs') :
    nnList cs' = true := by
  unfold removeChildE at h
  split at h
  · rename_i cs'' hr; cases h; exact removeChild_nn hp hcs hr
  · cases h

theorem replaceChild_nn (pk : CompKind) (key : Key) {v : Node} {cs : List (Key × Node)}
    (hv : NN v = true) (hcs : nnList cs = true) : nnList (replaceChild pk key v cs) = true := by
  unfold replaceChild
  split
  · exact aset_nn hv hcs
  · split
    · exact aset_nn hv hcs
    · exact hcs

theorem adoptAll_nn {pf : Flags} (pk : CompKind) (hp : nnF pf = true) : ∀ (items acc cs' : List (Key × Node)),
    nnList items = true → nnList acc = true → adoptAll pf pk items acc = .ok cs' → nnList cs' = true
  | [], acc, cs', _, hacc, h => by simp only [adoptAll] at h; cases h; exact hacc
  | (k, v) :: rest, acc, cs', hi, hacc, h => by
    rw [nnList_cons] at hi
    simp only [adoptAll] at h
    split at h
    · cases h
    · rename_i acc' hs
      exact adoptAll_nn pk hp rest acc' cs' hi.2 (setChild_nn hp hi.1 hacc hs) h

theorem removeMany_nn {pf : Flags} {pk : CompKind} (hp : nnF pf = true) :
    ∀ (names : List Key) (cs : List (Key × Node)), nnList cs = true → nnList (removeMany pf pk names cs) = true
  | [], cs, h => by simpa [removeMany] using h
  | nm :: rest, cs, h => by
    simp only [removeMany]
    split
    · rename_i cs' hr
      exact removeMany_nn hp rest cs' (removeChild_nn hp h hr)
    · exact removeMany_nn hp rest cs h

mutual
theorem filterNode_nn (cond : Path → Node → Bool) : ∀ (pre : Path) (n : Node), NN n = true →
    NN (filterNode cond pre n).1 = true
  | _, .leaf f k, h => h
  | pre, .comp f k cs, h => by
    rw [NN_comp] at h
    simp only [filterNode]
    rw [NN_comp]
    exact ⟨h.1, removeMany_nn h.1 _ _ (filterList_nn cond pre cs h.2)⟩
theorem filterList_nn (cond : Path → Node → Bool) : ∀ (pre : Path) (cs : List (Key × Node)),
    nnList cs = true → nnList (dropMarks (filterList cond pre cs).1) = true
  | _, [], _ => rfl
  | pre, (name, child) :: rest, h => by
    rw [nnList_cons] at h
    simp only [filterList, dropMarks]
    rw [nnList_cons]
    exact ⟨filterNode_nn cond (pre ++ [name]) child h.1, filterList_nn cond pre rest h.2⟩
end

/-! ### the merge algebra -/

theorem leafRule_nn {s o : Node} (hs : NN s = true) (ho : NN o = true) : NN (leafRule s o).1 = true := by
  unfold leafRule
  split
  · exact propagate_nn (NN_setFlags (nnF_replaceOtherFlags _ (NN_flags hs)) hs)
  · exact propagate_nn (NN_setFlags (nnF_replaceOtherFlags _ (NN_flags ho)) ho)

theorem maybePromote_nn {sf : Flags} {sk : CompKind} {scs : List (Key × Node)} {o r : Node} {b : Bool}
    (hsf : nnF sf = true) (hscs : nnList scs = true) (ho : NN o = true)
    (h : maybePromote sf sk scs o = .ok (r, b)) : NN r = true := by
  unfold maybePromote at h
  split at h
  · cases h; rw [NN_comp]; exact ⟨hsf, hscs⟩
  · rename_i of ok ocs
    have hof : nnF of = true := ((NN_comp of ok ocs).1 ho).1
    repeat' split at h
    all_goals first
      | (cases h; rw [NN_comp]; exact ⟨hsf, hscs⟩)
      | (rename_i cs' ha; cases h; rw [NN_comp]
         exact ⟨by unfold promotedFlags; split <;> simpa [nnF] using hsf, adoptAll_nn _ hof _ _ _ hscs nnList_nil ha⟩)
      | cases h

theorem finishMerge_nn {sf : Flags} {sk : CompKind} {scs : List (Key × Node)} {o r : Node} {b : Bool}
    (hsf : nnF sf = true) (hscs : nnList scs = true) (ho : NN o = true)
    (h : finishMerge sf sk scs o = .ok (r, b)) : NN r = true := by
  unfold finishMerge at h
  split at h
  · split at h
    · cases h
    · rename_i r' same hp; cases h
      exact propagate_nn (maybePromote_nn (nnF_replaceSelfFlags _ hsf) hscs ho hp)
  · split at h
    · cases h
    · rename_i r' same hp; cases h
      exact propagate_nn (maybePromote_nn (nnF_replaceOtherFlags _ hsf) hscs ho hp)

/-- what the loop needs from the recursive merge -/
def RecNN (rec : Node → Node → Except Err (Node × Bool)) : Prop :=
  ∀ a b r s, NN a = true → NN b = true → rec a b = .ok (r, s) → NN r = true

theorem mergeStep_nn {exc : List Path} {rec : Node → Node → Except Err (Node × Bool)} (hrec : RecNN rec) {sf : Flags}
    (hsf : nnF sf = true) {sk : CompKind} {acc acc' : List (Key × Node)} {kv : Key × Node}
    (hacc : nnList acc = true) (hkv : NN kv.2 = true) (h : mergeStep rec sf sk exc acc kv = .ok acc') :
    nnList acc' = true := by
  unfold mergeStep at h
  split at h
  · split at h
    · cases h
    · exact setChild_nn hsf hkv hacc h
  · rename_i child hg
    have hchild := getChild_nn hacc hg
    split at h
    · cases h
    · rename_i nw same hr
      have hnw := hrec _ _ _ _ hchild hkv hr
      split at h
      · split at h
        · exact removeChildE_nn hsf hacc h
        · split at h
          · cases h; exact replaceChild_nn _ _ hnw hacc
          · exact setChild_nn hsf hnw hacc h
      · split at h
        · cases h; exact replaceChild_nn _ _ hnw hacc
        · split at h
          · cases h
          · split at h
            · exact removeChildE_nn hsf hacc h
            · exact setChild_nn hsf hnw hacc h

theorem mergeLoop_nn {exc : List Path} {rec : Node → Node → Except Err (Node × Bool)} (hrec : RecNN rec) {sf : Flags}
    (hsf : nnF sf = true) (sk : CompKind) : ∀ (acc ocs acc' : List (Key × Node)), nnList acc = true →
    nnList ocs = true → mergeLoop rec sf sk exc acc ocs = .ok acc' → nnList acc' = true
  | acc, [], acc', hacc, _, h => by simp only [mergeLoop] at h; cases h; exact hacc
  | acc, kv :: rest, acc', hacc, ho, h => by
    obtain ⟨k, v⟩ := kv
    rw [nnList_cons] at ho
    simp only [mergeLoop] at h
    split at h
    · cases h
    · rename_i acc1 hs
      exact mergeLoop_nn hrec hsf sk acc1 rest acc' (mergeStep_nn hrec hsf hacc ho.1 hs) ho.2 h

theorem compMerge_nn {rec : Node → Node → Except Err (Node × Bool)} (hrec : RecNN rec) {sf : Flags}
    {sk : CompKind} {scs : List (Key × Node)} {o r : Node} {b : Bool} (hsf : nnF sf = true)
    (hscs : nnList scs = true) (ho : NN o = true) (h : compMerge rec sf sk scs o = .ok (r, b)) :
    NN r = true := by
  have hs : NN (.comp sf sk scs) = true := (NN_comp sf sk scs).2 ⟨hsf, hscs⟩
  cases o with
  | leaf of lk =>
    simp only [compMerge, Except.ok.injEq] at h
    have e1 : r = (leafRule (.comp sf sk scs) (.leaf of lk)).1 := by rw [h]
    subst e1
    exact leafRule_nn hs ho
  | comp of ok ocs =>
    have ho' := (NN_comp of ok ocs).1 ho
    have hfil := filterNode_nn (maybeKeep (.comp of ok ocs)) [] _ hs
    simp only [compMerge] at h
    split at h
    · split at h
      · split at h
        · cases h
        · split at h
          · cases h
          · rename_i res sameAsOther hp
            cases h
            exact propagate_nn (maybePromote_nn (nnF_replaceOtherFlags _ ho'.1) ho'.2 hfil hp)
      · split at h
        · cases h
        · rename_i scs' hl
          exact finishMerge_nn hsf (mergeLoop_nn hrec hsf sk _ ocs scs' (NN_children hfil) ho'.2 hl) ho h
    · split at h
      · cases h
      · rename_i scs' hl
        exact finishMerge_nn hsf (mergeLoop_nn hrec hsf sk _ ocs scs' hscs ho'.2 hl) ho h

theorem listMerge_nn {rec : Node → Node → Except Err (Node × Bool)} (hrec : RecNN rec) {sf : Flags}
    {sk : CompKind} {scs : List (Key × Node)} {o r : Node} {b : Bool} (hsf : nnF sf = true)
    (hscs : nnList scs = true) (ho : NN o = true) (h : listMerge rec sf sk scs o = .ok (r, b)) :
    NN r = true := by
  cases o with
  | leaf of lk => exact compMerge_nn hrec hsf hscs ho (by simpa only [listMerge] using h)
  | comp of ok ocs =>
    simp only [listMerge] at h
    split at h
    · cases h
    · exact compMerge_nn hrec hsf hscs (filterNode_nn _ _ _ ho) h

theorem funcMerge_nn {rec : Node → Node → Except Err (Node × Bool)} (hrec : RecNN rec) {sf : Flags}
    {sk : CompKind} {f : String} {scs : List (Key × Node)} {o r : Node} {b : Bool} (hsf : nnF sf = true)
    (hscs : nnList scs = true) (ho : NN o = true) (h : funcMerge rec sf sk f scs o = .ok (r, b)) :
    NN r = true := by
  have hS := nnF_replaceSelfFlags o.flags hsf
  have hO := nnF_replaceOtherFlags o.flags hsf
  cases o with
  | leaf of lk =>
    simp only [Node.flags] at hS hO
    simp only [funcMerge] at h
    split at h
    · split at h
      · split at h
        · cases h; exact propagate_nn ((NN_comp _ _ _).2 ⟨hS, nnList_nil⟩)
        · cases h; exact propagate_nn ((NN_comp _ _ _).2 ⟨hS, hscs⟩)
      · cases h; exact propagate_nn ((NN_comp _ _ _).2 ⟨hO, hscs⟩)
    · exact compMerge_nn hrec hsf hscs ho h
  | comp of ok ocs =>
    simp only [Node.flags] at hS hO
    simp only [funcMerge] at h
    split at h
    · exact compMerge_nn hrec hsf hscs ho h
    · split at h
      · split at h
        · cases h; exact propagate_nn ((NN_comp _ _ _).2 ⟨hO, hscs⟩)
        · refine compMerge_nn hrec hsf ?_ ho h
          split
          · exact nnList_nil
          · exact hscs
      · exact compMerge_nn hrec hsf hscs ho h

/-- `on_merge` keeps trees free of `allow_new = False`, at every fuel -/
theorem mergeF_nn : ∀ (fuel : Nat), RecNN (mergeF fuel)
  | 0 => fun a b r s _ _ h => by simp [mergeF] at h
  | fuel + 1 => fun a b r s ha hb h => by
    have ih := mergeF_nn fuel
    cases a with
    | leaf f k =>
      simp only [mergeF, Except.ok.injEq] at h
      have e1 : r = (leafRule (.leaf f k) b).1 := by rw [h]
      subst e1
      exact leafRule_nn ha hb
    | comp sf sk scs =>
      have ha' := (NN_comp sf sk scs).1 ha
      cases sk with
      | dict => exact compMerge_nn ih ha'.1 ha'.2 hb (by simpa only [mergeF] using h)
      | call g => exact funcMerge_nn ih ha'.1 ha'.2 hb (by simpa only [mergeF] using h)
      | bind g => exact funcMerge_nn ih ha'.1 ha'.2 hb (by simpa only [mergeF] using h)
      | list => exact listMerge_nn ih ha'.1 ha'.2 hb (by simpa only [mergeF] using h)
      | append => exact listMerge_nn ih ha'.1 ha'.2 hb (by simpa only [mergeF] using h)
      | extend => exact listMerge_nn ih ha'.1 ha'.2 hb (by simpa only [mergeF] using h)
      | path p => exact listMerge_nn ih ha'.1 ha'.2 hb (by simpa only [mergeF] using h)
      | stream => exact listMerge_nn ih ha'.1 ha'.2 hb (by simpa only [mergeF] using h)

theorem merge_nn {a b m : Node} (ha : NN a = true) (hb : NN b = true) (h : merge a b = .ok m) : NN m = true := by
  unfold merge at h
  split at h
  · cases h
  · rename_i r s hm
    cases h
    exact mergeF_nn _ a b _ s ha hb hm

end AY.C15W
