/-
  AY.Lemmas.C15TaggedMerge — the merge of two trees of mappings does not depend on the order in
  which the mappings list their keys (property C15, tagged documents):

      PermD s s' → PermD o o' → mergeF fuel s o = ok (r, same) →
        ∃ r', mergeF fuel s' o' = ok (r', same) ∧ PermD r r'

  for ALL flags on all nodes (priorities, explicit / inherited `delete`, `allow_new`, safety,
  metadata), any fuel.  `PermD` is symmetric, so the two merges fail together as well (which error is
  reported may differ: it is the one of the first failing key).
-/
import AY.Lemmas.C15TaggedPerm
namespace AY.C15T

/-! ### the tail and the two exact forms of a mapping ⊕ mapping merge -/

/-- flags of `self` after `_replace_self` / `_replace_other` (two mappings: no promotion) -/
def finishFlags (sf of : Flags) : Flags :=
  if hasPrio of sf true then replaceSelfFlags sf of else replaceOtherFlags sf of

theorem finishMerge_dict (sf of : Flags) (scs' ocs : List (Key × Node)) :
    finishMerge sf .dict scs' (.comp of .dict ocs) =
      .ok (propagate (.comp (finishFlags sf of) .dict scs'), true) := by
  simp only [finishMerge, Node.flags, maybePromote, CompKind.sameClass, if_true, finishFlags]
  split <;> rfl

/-- non-deleting `other`: the key loop over all of `self`, then the tail -/
theorem compMerge_live (rec : Node → Node → Except Err (Node × Bool)) (sf of : Flags)
    (scs ocs : List (Key × Node)) (hlive : eDel (.comp of .dict ocs) = false) :
    compMerge rec sf .dict scs (.comp of .dict ocs) =
      match mergeLoop rec sf .dict [] scs ocs with
      | .error e => .error e
      | .ok scs' => .ok (propagate (.comp (finishFlags sf of) .dict scs'), true) := by
  simp only [compMerge, hlive, Bool.false_eq_true, if_false, finishMerge_dict]
  rfl

/-- deleting `other` over a mapping with distinct keys: early exit (nothing survives the pruning and
    `other` has priority) or the key loop over the survivors -/
theorem compMerge_del (rec : Node → Node → Except Err (Node × Bool)) (sf of : Flags)
    (scs ocs : List (Key × Node)) (hdel : eDel (.comp of .dict ocs) = true) (hns : keysNodup scs = true) :
    compMerge rec sf .dict scs (.comp of .dict ocs) =
      if (keptChildren (maybeKeep (.comp of .dict ocs)) [] scs).isEmpty && hasPrio of sf true then
        match reqNew ([] :: (filterNode (maybeKeep (.comp of .dict ocs)) [] (.comp sf .dict scs)).2) []
            (.comp of .dict ocs) with
        | some p => .error (.notnew p)
        | none => .ok (propagate (.comp (replaceOtherFlags of sf) .dict ocs), false)
      else
        match mergeLoop rec sf .dict (filterNode (maybeKeep (.comp of .dict ocs)) [] (.comp sf .dict scs)).2
            (keptChildren (maybeKeep (.comp of .dict ocs)) [] scs) ocs with
        | .error e => .error e
        | .ok scs' => .ok (propagate (.comp (finishFlags sf of) .dict scs'), true) := by
  rw [c04_compMerge_del_dict rec hdel rfl hns]
  simp only [maybePromote, CompKind.sameClass, if_true, finishMerge_dict, Bool.not_true]
  rfl

/-! ### exceptions -/

mutual
theorem reqNew_congr_exc (exc exc' : List Path) (h : ∀ q, exc.contains q = exc'.contains q) :
    ∀ (p : Path) (n : Node), reqNew exc p n = reqNew exc' p n
  | p, .leaf f k => by simp only [reqNew, h p]
  | p, .comp f k cs => by simp only [reqNew, h p, reqNewList_congr_exc exc exc' h p cs]
theorem reqNewList_congr_exc (exc exc' : List Path) (h : ∀ q, exc.contains q = exc'.contains q) :
    ∀ (p : Path) (cs : List (Key × Node)), reqNewList exc p cs = reqNewList exc' p cs
  | _, [] => rfl
  | p, (k, c) :: rest => by
    simp only [reqNewList, reqNew_congr_exc exc exc' h (p ++ [k]) c, reqNewList_congr_exc exc exc' h p rest]
end

theorem contains_congr_of_mem {exc exc' : List Path} {p : Path} (h : p ∈ exc ↔ p ∈ exc') :
    exc.contains p = exc'.contains p := by
  cases h1 : exc.contains p <;> cases h2 : exc'.contains p <;> simp_all

/-- two exception sets with the same members -/
def SameExc (exc exc' : List Path) : Prop := ∀ p, p ∈ exc ↔ p ∈ exc'

theorem SameExc.below {exc exc' : List Path} (h : SameExc exc exc') (k : Key) :
    ∀ q, (excBelow k exc).contains q = (excBelow k exc').contains q := by
  intro q
  rw [contains_excBelow, contains_excBelow]
  exact contains_congr_of_mem (h (k :: q))

theorem SameExc.cons {exc exc' : List Path} (h : SameExc exc exc') (p : Path) :
    ∀ q, (p :: exc).contains q = (p :: exc').contains q := by
  intro q
  apply contains_congr_of_mem
  simp only [List.mem_cons]
  rw [h q]

/-! ### the leaf rule -/

theorem leafRule_perm {s s' o o' : Node} (hs : PermD s s') (ho : PermD o o') :
    PermD (leafRule s o).1 (leafRule s' o').1 ∧ (leafRule s' o').2 = (leafRule s o).2 := by
  simp only [leafRule, hs.flags_eq, ho.flags_eq]
  split
  · exact ⟨((hs.setFlags _).propagate), rfl⟩
  · exact ⟨((ho.setFlags _).propagate), rfl⟩

/-! ### one iteration of the key loop -/

/-- the merge of related pairs: related results, the same "is self" answer -/
def RecPerm (rec : Node → Node → Except Err (Node × Bool)) : Prop :=
  ∀ a a' v v' r b, PermD a a' → PermD v v' → rec a v = .ok (r, b) →
    ∃ r', rec a' v' = .ok (r', b) ∧ PermD r r'

theorem stepAt_perm {rec : Node → Node → Except Err (Node × Bool)} (hrec : RecPerm rec) (sf : Flags)
    {exc exc' : List Path} (hexc : SameExc exc exc') (k : Key) {c? c?' : Option Node} {v v' : Node}
    (hc : OptRel PermD c? c?') (hv : PermD v v') (x? : Option Node)
    (h : stepAt rec sf exc k c? v = .ok x?) :
    ∃ x?', stepAt rec sf exc' k c?' v' = .ok x?' ∧ OptRel PermD x? x?' := by
  cases hc with
  | none =>
    simp only [stepAt] at h ⊢
    cases hq : reqNew (excBelow k exc) [] v with
    | some p => simp [hq] at h
    | none =>
      simp only [hq, Except.ok.injEq] at h
      subst h
      have hq' : reqNew (excBelow k exc') [] v' = none := by
        rw [← reqNew_congr_exc _ _ (hexc.below k) [] v']
        exact (hv.reqNew_none _ []).1 hq
      simp only [hq']
      exact ⟨_, rfl, .some (hv.adopt sf)⟩
  | some hcc =>
    rename_i c c'
    simp only [stepAt] at h ⊢
    cases hr : rec c v with
    | error e => simp [hr] at h
    | ok res =>
      obtain ⟨nw, same⟩ := res
      obtain ⟨nw', hr', hnw⟩ := hrec c c' v v' nw same hcc hv hr
      simp only [hr] at h
      simp only [hr', hcc.isComp_eq, hnw.truthy_eq, hnw.flags_eq, hv.flags_eq]
      by_cases h1 : c.isComp = true
      · simp only [h1, if_true] at h ⊢
        by_cases h2 : (!nw.truthy && !hasPrio nw.flags v.flags false && v.flags.del == some true) = true
        · simp only [h2, if_true, Except.ok.injEq] at h ⊢
          subst h
          exact ⟨_, rfl, .none⟩
        · simp only [h2, Bool.false_eq_true, if_false] at h ⊢
          by_cases h3 : same = true
          · simp only [h3, if_true, Except.ok.injEq] at h ⊢
            subst h
            exact ⟨_, rfl, .some hnw⟩
          · simp only [h3, Bool.false_eq_true, if_false, Except.ok.injEq] at h ⊢
            subst h
            exact ⟨_, rfl, .some (hnw.adopt sf)⟩
      · simp only [h1, Bool.false_eq_true, if_false] at h ⊢
        by_cases h3 : same = true
        · simp only [h3, if_true, Except.ok.injEq] at h ⊢
          subst h
          exact ⟨_, rfl, .some hnw⟩
        · simp only [h3, Bool.false_eq_true, if_false] at h ⊢
          cases hq : reqNewBelow nw with
          | some p => simp [hq] at h
          | none =>
            have hq' : reqNewBelow nw' = none := hnw.reqNewBelow_none.1 hq
            simp only [hq] at h
            simp only [hq']
            by_cases h4 : (!nw.truthy && nw.flags.del == some true) = true
            · simp only [h4, if_true, Except.ok.injEq] at h ⊢
              subst h
              exact ⟨_, rfl, .none⟩
            · simp only [h4, Bool.false_eq_true, if_false, Except.ok.injEq] at h ⊢
              subst h
              exact ⟨_, rfl, .some (hnw.adopt sf)⟩

/-! ### the key loop -/

/-- two association lists with distinct keys and related values key by key -/
structure LRel (cs cs' : List (Key × Node)) : Prop where
  nd : keysNodup cs = true
  nd' : keysNodup cs' = true
  rel : ∀ k, OptRel PermD (alookup k cs) (alookup k cs')

theorem LRel.toPermD {cs cs' : List (Key × Node)} (h : LRel cs cs') (f : Flags) :
    PermD (.comp f .dict cs) (.comp f .dict cs') := .dict f h.nd h.nd' h.rel

theorem LRel.ofPermD {f f' : Flags} {k k' : CompKind} {cs cs' : List (Key × Node)}
    (h : PermD (.comp f k cs) (.comp f' k' cs')) : LRel cs cs' := by
  cases h with
  | dict _ h1 h2 h3 => exact ⟨h1, h2, h3⟩

theorem mergeLoop_perm {rec : Node → Node → Except Err (Node × Bool)} (hrec : RecPerm rec) (sf : Flags)
    {exc exc' : List Path} (hexc : SameExc exc exc') {ocs ocs' acc acc' : List (Key × Node)}
    (ho : LRel ocs ocs') (ha : LRel acc acc') (acc1 : List (Key × Node))
    (h : mergeLoop rec sf .dict exc acc ocs = .ok acc1) :
    ∃ acc1', mergeLoop rec sf .dict exc' acc' ocs' = .ok acc1' ∧ LRel acc1 acc1' := by
  obtain ⟨e1, p1⟩ := mergeLoop_dict_pointwise rec sf exc ocs acc ho.nd ha.nd
  obtain ⟨e2, p2⟩ := mergeLoop_dict_pointwise rec sf exc' ocs' acc' ho.nd' ha.nd'
  rw [h, errOf_ok] at e1
  have hall := List.findSome?_eq_none_iff.1 e1.symm
  -- every iteration on the right succeeds
  have hright : errOf (mergeLoop rec sf .dict exc' acc' ocs') = none := by
    rw [e2]
    apply List.findSome?_eq_none_iff.2
    intro kv' hkv'
    have hl' : alookup kv'.1 ocs' = some kv'.2 := alookup_of_mem ho.nd' hkv'
    have hrel := ho.rel kv'.1
    rw [hl'] at hrel
    obtain ⟨v, hl, hvv⟩ := hrel.someR
    have hleft := hall (kv'.1, v) (mem_of_alookup hl)
    obtain ⟨x?, hx⟩ := errOf_none hleft
    obtain ⟨x?', hx', _⟩ := stepAt_perm hrec sf hexc kv'.1 (ha.rel kv'.1) hvv x? hx
    rw [hx']
    rfl
  obtain ⟨acc1', h'⟩ := errOf_none hright
  refine ⟨acc1', h', (p1 acc1 h).1, (p2 acc1' h').1, ?_⟩
  intro k
  have q1 := (p1 acc1 h).2 k
  have q2 := (p2 acc1' h').2 k
  have hrel := ho.rel k
  cases hv : alookup k ocs with
  | none =>
    rw [hv] at hrel q1
    rw [hrel.noneL] at q2
    simp only at q1 q2
    rw [q1, q2]
    exact ha.rel k
  | some v =>
    rw [hv] at hrel q1
    obtain ⟨v', hv', hvv⟩ := hrel.someL
    rw [hv'] at q2
    simp only at q1 q2
    obtain ⟨x?', hx', hxr⟩ := stepAt_perm hrec sf hexc k (ha.rel k) hvv _ q1
    rw [q2] at hx'
    injection hx' with hx'
    rw [hx']
    exact hxr

/-! ### the merge -/

theorem compMerge_perm {rec : Node → Node → Except Err (Node × Bool)} (hrec : RecPerm rec) (sf of : Flags)
    {scs scs' ocs ocs' : List (Key × Node)} (hs : LRel scs scs') (ho : LRel ocs ocs') (r : Node) (b : Bool)
    (h : compMerge rec sf .dict scs (.comp of .dict ocs) = .ok (r, b)) :
    ∃ r', compMerge rec sf .dict scs' (.comp of .dict ocs') = .ok (r', b) ∧ PermD r r' := by
  have hoP : PermD (.comp of .dict ocs) (.comp of .dict ocs') := ho.toPermD of
  cases hd : eDel (.comp of .dict ocs) with
  | false =>
    have hd' : eDel (.comp of .dict ocs') = false := hd
    rw [compMerge_live rec sf of scs ocs hd] at h
    rw [compMerge_live rec sf of scs' ocs' hd']
    cases hl : mergeLoop rec sf .dict [] scs ocs with
    | error e => simp [hl] at h
    | ok scs1 =>
      simp only [hl, Except.ok.injEq, Prod.mk.injEq] at h
      obtain ⟨rfl, rfl⟩ := h
      obtain ⟨scs1', hl', hrel⟩ := mergeLoop_perm hrec sf (fun p => Iff.rfl) ho hs scs1 hl
      simp only [hl']
      exact ⟨_, rfl, (hrel.toPermD _).propagate⟩
  | true =>
    have hd' : eDel (.comp of .dict ocs') = true := hd
    rw [compMerge_del rec sf of scs ocs hd hs.nd] at h
    rw [compMerge_del rec sf of scs' ocs' hd' hs.nd']
    rw [hoP.maybeKeep_eq]
    obtain ⟨f1, f2⟩ := (hs.toPermD sf).filterNode (maybeKeep (.comp of .dict ocs))
      (maybeKeep_flags _) []
    rw [c04_filterNode_dict_kept _ [] sf .dict scs rfl hs.nd,
      c04_filterNode_dict_kept _ [] sf .dict scs' rfl hs.nd'] at f1
    have hk : LRel (keptChildren (maybeKeep (.comp of .dict ocs)) [] scs)
        (keptChildren (maybeKeep (.comp of .dict ocs)) [] scs') := LRel.ofPermD f1
    have hemp : (keptChildren (maybeKeep (.comp of .dict ocs)) [] scs').isEmpty =
        (keptChildren (maybeKeep (.comp of .dict ocs)) [] scs).isEmpty := f1.children_isEmpty
    rw [hemp]
    by_cases hE : ((keptChildren (maybeKeep (.comp of .dict ocs)) [] scs).isEmpty && hasPrio of sf true) = true
    · simp only [hE, if_true] at h ⊢
      cases hq : reqNew ([] :: (filterNode (maybeKeep (.comp of .dict ocs)) [] (.comp sf .dict scs)).2) []
          (.comp of .dict ocs) with
      | some p => simp [hq] at h
      | none =>
        simp only [hq, Except.ok.injEq, Prod.mk.injEq] at h
        obtain ⟨rfl, rfl⟩ := h
        have hq' : reqNew ([] :: (filterNode (maybeKeep (.comp of .dict ocs)) [] (.comp sf .dict scs')).2) []
            (.comp of .dict ocs') = none := by
          rw [← reqNew_congr_exc _ _ (SameExc.cons f2 []) [] _]
          exact (hoP.reqNew_none _ []).1 hq
        simp only [hq']
        exact ⟨_, rfl, (ho.toPermD _).propagate⟩
    · simp only [hE, Bool.false_eq_true, if_false] at h ⊢
      cases hl : mergeLoop rec sf .dict (filterNode (maybeKeep (.comp of .dict ocs)) [] (.comp sf .dict scs)).2
          (keptChildren (maybeKeep (.comp of .dict ocs)) [] scs) ocs with
      | error e => simp [hl] at h
      | ok scs1 =>
        simp only [hl, Except.ok.injEq, Prod.mk.injEq] at h
        obtain ⟨rfl, rfl⟩ := h
        obtain ⟨scs1', hl', hrel⟩ := mergeLoop_perm hrec sf f2 ho hk scs1 hl
        simp only [hl']
        exact ⟨_, rfl, (hrel.toPermD _).propagate⟩

/-- the merge of two trees of mappings, up to the order of keys -/
theorem mergeF_perm : ∀ fuel : Nat, RecPerm (mergeF fuel) := by
  intro fuel
  induction fuel with
  | zero =>
    intro a a' v v' r b _ _ h
    simp [mergeF] at h
  | succ fuel ih =>
    intro s s' o o' r b hs ho h
    cases hs with
    | leaf f k =>
      simp only [mergeF, Except.ok.injEq] at h ⊢
      obtain ⟨l1, l2⟩ := leafRule_perm (PermD.leaf f k) ho
      rw [h] at l1 l2
      exact ⟨(leafRule (.leaf f k) o').1, Prod.ext rfl l2, l1⟩
    | dict sf h1 h2 h3 =>
      rename_i scs scs'
      have hsP : PermD (.comp sf .dict scs) (.comp sf .dict scs') := .dict sf h1 h2 h3
      cases ho with
      | leaf g k =>
        simp only [mergeF, compMerge, Except.ok.injEq] at h ⊢
        obtain ⟨l1, l2⟩ := leafRule_perm hsP (PermD.leaf g k)
        rw [h] at l1 l2
        exact ⟨(leafRule (.comp sf .dict scs') (.leaf g k)).1, Prod.ext rfl l2, l1⟩
      | dict of g1 g2 g3 =>
        simp only [mergeF] at h ⊢
        exact compMerge_perm ih sf of ⟨h1, h2, h3⟩ ⟨g1, g2, g3⟩ r b h

/-- … and the two merges fail together -/
theorem mergeF_perm_error (fuel : Nat) {s s' o o' : Node} (hs : PermD s s') (ho : PermD o o') (e : Err)
    (h : mergeF fuel s o = .error e) : ∃ e', mergeF fuel s' o' = .error e' := by
  cases h' : mergeF fuel s' o' with
  | error e' => exact ⟨e', rfl⟩
  | ok res =>
    obtain ⟨r', b⟩ := res
    obtain ⟨r, hr, _⟩ := mergeF_perm fuel s' s o' o r' b hs.symm ho.symm h'
    rw [h] at hr
    cases hr

end AY.C15T
