/-
  AY.Lemmas.C05Frame — the key loop of a mapping merge touches only the keys the newer mapping
  mentions (all nodes, all flags): frame part of property C05 on the model side.
-/
import AY.Lemmas.Native
import AY.Lemmas.UpdFrame
namespace AY

theorem alookup_aerase {α : Type} (k k' : Key) (hne : k' ≠ k) :
    ∀ l : List (Key × α), alookup k (aerase k' l) = alookup k l
  | [] => rfl
  | (k'', v) :: rest => by
    by_cases h : k'' = k'
    · subst h; simp [aerase, alookup, hne]
    · by_cases h2 : k'' = k
      · subst h2; simp [aerase, alookup, h]
      · simp [aerase, alookup, h, h2, alookup_aerase k k' hne rest]

theorem alookup_applyKwList (kw : ChildKw) (k : Key) :
    ∀ cs : List (Key × Node), alookup k (applyKwList kw cs) = (alookup k cs).map (applyKw kw)
  | [] => rfl
  | (k', c) :: rest => by
    by_cases h : k' = k <;> simp [applyKwList, alookup, h, alookup_applyKwList kw k rest]

theorem setChild_frame {sf : Flags} {sk : CompKind} {name : Key} {v : Node} {acc acc' : List (Key × Node)}
    (hsk : sk.isDictFam = true) (h : setChild sf sk name v acc = .ok acc') (k : Key) (hne : name ≠ k) :
    alookup k acc' = alookup k acc := by
  simp only [setChild, hsk, if_true] at h
  injection h with h
  rw [← h, alookup_aset]; simp [hne]

theorem replaceChild_frame {sk : CompKind} {name : Key} {v : Node} {acc : List (Key × Node)}
    (hsk : sk.isDictFam = true) (k : Key) (hne : name ≠ k) :
    alookup k (replaceChild sk name v acc) = alookup k acc := by
  simp only [replaceChild, hsk, if_true]
  rw [alookup_aset]; simp [hne]

theorem removeChildE_frame {sf : Flags} {sk : CompKind} {name : Key} {acc acc' : List (Key × Node)}
    (hsk : sk.isDictFam = true) (h : removeChildE sf sk name acc = .ok acc') (k : Key) (hne : name ≠ k) :
    alookup k acc' = alookup k acc := by
  simp only [removeChildE, removeChild, hsk, if_true] at h
  split at h
  · rename_i cs' hs
    split at hs
    · injection hs with hs; injection h with h; rw [← h, ← hs]; exact alookup_aerase k name hne acc
    · cases hs
  · cases h

/-- one iteration of the key loop only touches its own key -/
theorem mergeStep_frame {exc : List Path} (rec : Node → Node → Except Err (Node × Bool)) {sf : Flags} {sk : CompKind}
    (hsk : sk.isDictFam = true) {acc acc' : List (Key × Node)} {kv : Key × Node}
    (h : mergeStep rec sf sk exc acc kv = .ok acc') (k : Key) (hne : kv.1 ≠ k) :
    alookup k acc' = alookup k acc := by
  simp only [mergeStep] at h
  split at h
  · split at h
    · cases h
    · exact setChild_frame hsk h k hne
  · split at h
    · cases h
    · split at h
      · split at h
        · exact removeChildE_frame hsk h k hne
        · split at h
          · injection h with h; rw [← h]; exact replaceChild_frame hsk k hne
          · exact setChild_frame hsk h k hne
      · split at h
        · injection h with h; rw [← h]; exact replaceChild_frame hsk k hne
        · split at h
          · cases h
          · split at h
            · exact removeChildE_frame hsk h k hne
            · exact setChild_frame hsk h k hne

/-- the key loop only touches the keys of the newer mapping -/
theorem mergeLoop_frame {exc : List Path} (rec : Node → Node → Except Err (Node × Bool)) {sf : Flags} {sk : CompKind}
    (hsk : sk.isDictFam = true) : ∀ (ocs acc acc' : List (Key × Node)),
    mergeLoop rec sf sk exc acc ocs = .ok acc' → ∀ k, alookup k ocs = none → alookup k acc' = alookup k acc
  | [], acc, acc', h, k, _ => by
    simp only [mergeLoop] at h; injection h with h; rw [h]
  | (k', v) :: rest, acc, acc', h, k, hk => by
    have hk' : ¬ k' = k ∧ alookup k rest = none := by
      by_cases e : k' = k <;> simp_all [alookup]
    simp only [mergeLoop] at h
    cases hs : mergeStep rec sf sk exc acc (k', v) with
    | error e => simp [hs] at h
    | ok acc1 =>
      simp only [hs] at h
      rw [mergeLoop_frame rec hsk rest acc1 acc' h k hk'.2]
      exact mergeStep_frame rec hsk hs k hk'.1

/-- the children after the tail of a mapping ⊕ mapping merge: as the loop left them, possibly with
    the inherited flags re-propagated -/
theorem finishMerge_dict_children (sf of : Flags) (scs' ocs : List (Key × Node)) (r : Node) (s : Bool)
    (h : finishMerge sf .dict scs' (.comp of .dict ocs) = .ok (r, s)) (k : Key) :
    (alookup k r.children).map native = (alookup k scs').map native := by
  simp only [finishMerge, Node.flags, maybePromote, CompKind.sameClass, if_true] at h
  split at h
  · injection h with h
    injection h with h _
    rw [← h]
    simp only [propagate]
    split
    · rfl
    · simp only [Node.children, alookup_applyKwList]
      cases alookup k scs' <;> simp [nativeOf_applyKw]
  · injection h with h
    injection h with h _
    rw [← h]
    simp only [propagate]
    split
    · rfl
    · simp only [Node.children, alookup_applyKwList]
      cases alookup k scs' <;> simp [nativeOf_applyKw]

end AY
