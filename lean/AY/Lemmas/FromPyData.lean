/-
  AY.Lemmas.FromPyData — the data of an API-built tree (`fromPy`, Model/FromPy.lean) is the input.
  (Kept apart from AY.Lemmas.FromPy, which imports Model/Copy.lean: the C02 lemma files import
  Lemmas/Assoc.lean, whose `AY.keysNodup` clashes with the one of Model/Copy.lean.)
-/
import AY.Model.FromPy
namespace AY.FP

mutual
theorem native_fromPy (env : Env) : ∀ (kw : PyKw) (d : Plain), native (fromPy env kw d) = d
  | _, .scalar _ => rfl
  | kw, .list xs => by
    simp only [fromPy, native, CompKind.isDictFam, Bool.false_eq_true, if_false]
    rw [nativeVals_fromPyList env _ 0 xs]
  | kw, .dict xs => by
    simp only [fromPy, native, CompKind.isDictFam, if_true]
    rw [nativeList_fromPyMap env _ xs]
theorem nativeVals_fromPyList (env : Env) : ∀ (kw : PyKw) (i : Nat) (xs : List Plain),
    nativeVals (fromPyList env kw i xs) = xs
  | _, _, [] => rfl
  | kw, i, x :: rest => by
    simp only [fromPyList, nativeVals, native_fromPy env kw x, nativeVals_fromPyList env kw (i + 1) rest]
theorem nativeList_fromPyMap (env : Env) : ∀ (kw : PyKw) (xs : List (Key × Plain)),
    nativeList (fromPyMap env kw xs) = xs
  | _, [] => rfl
  | kw, (k, x) :: rest => by
    simp only [fromPyMap, nativeList, native_fromPy env kw x, nativeList_fromPyMap env kw rest]
end

/-! ### the API path and the loader path build the same tree from tag-free input -/

/-- the keyword arguments that correspond to adoption by an (optional) parent -/
def kwOfParent : Option (Flags × CompKind) → PyKw
  | none => {}
  | some (pf, pk) => pyChildKw {} pf pk

theorem kwOfParent_prio_src (p : Option (Flags × CompKind)) : (kwOfParent p).prio = none ∧ (kwOfParent p).src = none := by
  cases p with
  | none => exact ⟨rfl, rfl⟩
  | some q =>
    obtain ⟨pf, pk⟩ := q
    simp only [kwOfParent, pyChildKw]
    split <;> exact ⟨rfl, rfl⟩

theorem adoptBy_leaf (env : Env) (p : Option (Flags × CompKind)) (lk : LeafKind) :
    adoptBy p (.leaf (bareFlags env) lk) = .leaf (pyFlags env (kwOfParent p)) lk := by
  cases p with
  | none => rfl
  | some q =>
    obtain ⟨pf, pk⟩ := q
    cases h : childKw pf pk <;>
      simp [adoptBy, adopt, inheritInto, propagate, Node.setFlags, Node.flags, updFlags, bareFlags, pyFlags,
        kwOfParent, pyChildKw, h]

theorem propagate_empty (f : Flags) (k : CompKind) : propagate (.comp f k []) = .comp f k [] := by
  simp only [propagate]
  split <;> rfl

theorem adoptBy_empty (env : Env) (p : Option (Flags × CompKind)) (k : CompKind) :
    adoptBy p (.comp (bareFlags env) k []) = .comp (pyFlags env (kwOfParent p)) k [] := by
  cases p with
  | none => rfl
  | some q =>
    obtain ⟨pf, pk⟩ := q
    cases h : childKw pf pk with
    | none =>
      simp only [adoptBy, adopt, inheritInto, propagate_empty, kwOfParent, pyChildKw, h]
      rfl
    | some c =>
      have e : updFlags c (bareFlags env) = pyFlags env (kwOfParent (some (pf, pk))) := by
        simp [updFlags, bareFlags, pyFlags, kwOfParent, pyChildKw, h]
      simp only [adoptBy, adopt, inheritInto, Node.setFlags, Node.flags, h, e, propagate_empty]

theorem pyChildKw_irrel (kw : PyKw) (f : Flags) {k : CompKind} (hk : k = .dict ∨ k = .list)
    (h1 : kw.prio = none) (h2 : kw.src = none) : pyChildKw kw f k = pyChildKw {} f k := by
  rcases hk with rfl | rfl <;> simp [pyChildKw, childKw, h1, h2]

theorem aset_fresh {α : Type} (k : Key) (v : α) : ∀ (acc : List (Key × α)), alookup k acc = none →
    aset k v acc = acc ++ [(k, v)]
  | [], _ => rfl
  | (k', v') :: rest, h => by
    simp only [alookup] at h
    split at h
    · cases h
    · rename_i hne
      simp only [aset, hne, if_false, List.cons_append, aset_fresh k v rest h]

theorem alookup_append_single {α : Type} (k k' : Key) (v : α) : ∀ (acc : List (Key × α)), alookup k' acc = none →
    k ≠ k' → alookup k' (acc ++ [(k, v)]) = none
  | [], _, hne => by simp [alookup, hne]
  | (k0, v0) :: rest, h, hne => by
    simp only [alookup] at h
    split at h
    · cases h
    · rename_i h0
      simp only [List.cons_append, alookup, h0, if_false]
      exact alookup_append_single k k' v rest h hne

theorem pyKeyFresh_mem {k k' : Key} {x : Plain} : ∀ {xs : List (Key × Plain)}, pyKeyFresh k xs = true →
    (k', x) ∈ xs → k' ≠ k
  | [], _, hm => by cases hm
  | (k0, x0) :: rest, h, hm => by
    simp only [pyKeyFresh, Bool.and_eq_true, bne_iff_ne, ne_eq] at h
    rcases List.mem_cons.1 hm with e | hm
    · cases e; exact h.1
    · exact pyKeyFresh_mem h.2 hm

mutual
theorem constructTD_rawOfPlain (env : Env) : ∀ (p : Option (Flags × CompKind)) (d : Plain), pyKeysDistinct d = true →
    constructTD env p (rawOfPlain d) = .ok (fromPy env (kwOfParent p) d)
  | p, .scalar v, _ => by
    simp only [rawOfPlain, constructTD, RVal.toScalar, adoptBy_leaf, fromPy]
  | p, .list xs, h => by
    simp only [pyKeysDistinct] at h
    have hp := kwOfParent_prio_src p
    simp only [rawOfPlain, constructTD, adoptBy_empty, fromPy,
      constructTDList_rawOfPlain env (pyFlags env (kwOfParent p)) .list (.inr rfl) 0 xs h,
      pyChildKw_irrel (kwOfParent p) (pyFlags env (kwOfParent p)) (.inr rfl) hp.1 hp.2]
  | p, .dict xs, h => by
    simp only [pyKeysDistinct, Bool.and_eq_true] at h
    have hp := kwOfParent_prio_src p
    simp only [rawOfPlain, constructTD, adoptBy_empty, fromPy,
      constructTDMap_rawOfPlain env (pyFlags env (kwOfParent p)) .dict (.inl rfl) xs [] h.1 h.2 (fun _ _ _ => rfl),
      pyChildKw_irrel (kwOfParent p) (pyFlags env (kwOfParent p)) (.inl rfl) hp.1 hp.2, List.nil_append]
theorem constructTDList_rawOfPlain (env : Env) : ∀ (pf : Flags) (pk : CompKind), pk = .dict ∨ pk = .list →
    ∀ (i : Nat) (xs : List Plain), pyKeysDistinctL xs = true →
    constructTDList env pf pk i (rawOfPlainL xs) = .ok (fromPyList env (pyChildKw {} pf pk) i xs)
  | _, _, _, _, [], _ => rfl
  | pf, pk, hk, i, x :: rest, h => by
    simp only [pyKeysDistinctL, Bool.and_eq_true] at h
    have e : kwOfParent (some (pf, pk)) = pyChildKw {} pf pk := rfl
    simp only [rawOfPlainL, constructTDList, constructTD_rawOfPlain env (some (pf, pk)) x h.1, e,
      constructTDList_rawOfPlain env pf pk hk (i + 1) rest h.2, fromPyList]
theorem constructTDMap_rawOfPlain (env : Env) : ∀ (pf : Flags) (pk : CompKind), pk = .dict ∨ pk = .list →
    ∀ (xs : List (Key × Plain)) (acc : List (Key × Node)), pyKeysNodup xs = true → pyKeysDistinctM xs = true →
    (∀ k x, (k, x) ∈ xs → alookup k acc = none) →
    constructTDMap env pf pk (rawOfPlainM xs) acc = .ok (acc ++ fromPyMap env (pyChildKw {} pf pk) xs)
  | _, _, _, [], acc, _, _, _ => by simp [rawOfPlainM, constructTDMap, fromPyMap]
  | pf, pk, hk, (k, x) :: rest, acc, hn, hd, hf => by
    simp only [pyKeysNodup, Bool.and_eq_true] at hn
    simp only [pyKeysDistinctM, Bool.and_eq_true] at hd
    have e : kwOfParent (some (pf, pk)) = pyChildKw {} pf pk := rfl
    have hk0 : alookup k acc = none := hf k x List.mem_cons_self
    simp only [rawOfPlainM, constructTDMap, constructTD_rawOfPlain env (some (pf, pk)) x hd.1, e,
      aset_fresh k _ acc hk0, fromPyMap]
    rw [constructTDMap_rawOfPlain env pf pk hk rest _ hn.2 hd.2 (fun k' x' hm =>
      alookup_append_single k k' _ acc (hf k' x' (List.mem_cons_of_mem _ hm)) (fun e' => pyKeyFresh_mem hn.1 hm e'.symm))]
    simp only [List.append_assoc, List.cons_append, List.nil_append]
end

/-- `yaml.parse` of the tag-free document of `d` and `ConfigNode(d)` are the same tree -/
theorem construct_rawOfPlain (env : Env) (d : Plain) (h : pyKeysDistinct d = true) :
    construct env (rawOfPlain d) = .ok (fromPy env {} d) :=
  constructTD_rawOfPlain env none d h

end AY.FP
