import AY.Model.Data
import AY.Model.Flags
import AY.Model.NodePath
import AY.Model.Merge
import AY.Model.Build
import AY.Model.Construct
import AY.Model.Func
import AY.Model.Eval
