import awesomeyaml as ay
from awesomeyaml import yaml as ayy
from awesomeyaml.builder import Builder
def rt(src):
    try:
        docs = list(ayy.parse(src))
        out = [ayy.dump(d) for d in docs]
        docs2 = [list(ayy.parse(o))[0] for o in out]
        out2 = [ayy.dump(d) for d in docs2]
        def info(d):
            if not hasattr(d.ayns, 'nodes_with_paths'): return [('', type(d).__name__, d.ayns.node_info)]
            return [(str(p), type(n).__name__, {k:v for k,v in n.ayns.node_info.items() if k not in ('idx','source_file') and v not in (None, {})}) for p,n in d.ayns.nodes_with_paths(include_self=True)]
        same = [info(a)==info(b) for a,b in zip(docs,docs2)]
        print(repr(src), '->', out, 'stable' if out==out2 else ('UNSTABLE', out2), 'flags-same' if all(same) else 'FLAGS-DIFFER')
        if not all(same):
            for a,b in zip(docs,docs2):
                for x,y in zip(info(a),info(b)):
                    if x!=y: print('     ', x, '!=', y)
    except Exception as e:
        print(repr(src), 'ERR', type(e).__name__, str(e)[:200])
rt("a: 1\nb: [1,2]\nc: {d: x}")
rt("a: !del []")
rt("a: !del {}")
rt("a: !del [1]")
rt("a: !merge [1]")
rt("a: !force ~")
rt("a: !weak null")
rt("a: !null")
rt("a: !force 1")
rt("a: !force {b: 1, c: !weak 2}")
rt("a: !force {b: {c: 1}}")
rt("a: !metadata{{'u': 1}} 5")
rt("a: !metadata{{'u': 1, 'priority': 1}} [1, 2]")
rt("a: !notnew {b: 1}")
rt("a: !unsafe {b: 1}")
rt("a: !xref b.c")
rt("a: !call:os.getcwd {}")
rt("a: !call:os.path.join [a, b]")
rt("a: !bind:os.path.join {0: a}")
rt("a: !eval 1+1")
rt("a: f'{b}'")
rt("a: !required")
rt("a: !clear")
rt("a: !append [1]")
rt("a: !extend [1]")
rt("a: !prev b")
rt("a: !path:cwd [x, y]")
rt("a: !path [x]")
rt("a: !include foo.yaml")
rt("a: !import os.path")
rt("a: !del")
rt("a: 'f''x'''")
rt("a: '1'")
rt("a: 'true'")
rt("a: ''")
rt("a: !weak ''")
rt("a: !weak '1'")
rt("a: !weak 'x: y'")
rt("a: !weak 1.5")
rt("a: !weak true")
rt("1: a\n2.5: b\ntrue: c")
rt("a: !eval |\n  x = 1\n  x + 1")
rt("a: !del {b: !merge [1, !del {c: 1}]}")
