import awesomeyaml as ay, sys, traceback
try:
    print(dict(ay.Config.build(sys.argv[1].replace('\\n','\n'), raw_yaml=True, filename='x.yaml')))
except Exception as e:
    while e is not None:
        print(type(e).__name__, str(e)[:200].replace('\n',' | '))
        e = e.__cause__ or e.__context__
