import awesomeyaml as ay, sys
def build(*docs):
    try:
        return dict(ay.Config.build(*docs, raw_yaml=True))
    except Exception as e:
        return 'ERR %s: %s' % (type(e).__name__, str(e).replace('\n',' | ')[:200])
t = sys.argv[1]
if t=='1': print(build("a: !xref a"))
if t=='2': print(build("a: !xref b\nb: !xref a"))
if t=='3': print(build("a: !xref b\nb: !xref c\nc: [1, !xref a]"))
if t=='4':
    c = ay.Config.build("a: !xref b\nb: !xref c\nc: [1, {z: 2}]\nd: [!xref c, !xref 'c[1]']", raw_yaml=True); print(c, c.a is c.c, c.d[0] is c.c, c.d[1] is c.c[1])
if t=='5': print(build("a: !xref nope"))
if t=='6': print(build("a: !xref b.q\nb: {q: !xref 'c[0]'}\nc: [7]"))
if t=='7': print(build("a: {b: !xref a}"))
if t=='8': print(build("a: !xref 'b..c'"))
if t=='9': print(build("a: !call:rec.f {x: !xref a}"))
