import sys
sys.path.insert(0, '/repo')
import awesomeyaml
from awesomeyaml.config import Config
from awesomeyaml.builder import Builder

def build(text):
    b = Builder()
    b.add_source(text)
    try:
        cfg = Config(b.build())
        return 'ok', repr(cfg.g)
    except Exception as e:
        chain = []
        x = e
        while x is not None:
            chain.append(type(x).__name__)
            x = x.__cause__ or x.__context__
        return 'error', chain

a_first = """
u: !unsafe
  a: !xref c
c: s
g: !bind:dict
  x: !xref u.a
"""
g_first = """
g: !bind:dict
  x: !xref u.a
u: !unsafe
  a: !xref c
c: s
"""
for name, t in [('u first', a_first), ('g first', g_first)]:
    print(name, build(t))
