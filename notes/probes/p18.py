exec(open('/tmp/probe/p4.py').read().split("print(1,")[0])
from awesomeyaml.nodes import ConfigNode
from awesomeyaml.utils import Bunch
import copy
open('/tmp/probe/sig.py','w').write('''
def f1(a, b, c=3): return ('f1', a, b, c)
def f2(a, *args, k=1, **kw): return ('f2', a, args, k, kw)
def f3(a, b=2, *, k): return ('f3', a, b, k)
def f4(*args, **kw): return ('f4', args, kw)
''')
import sig
def runs(*docs, fn='x.yaml'):
    try:
        c = ay.Config.build(*docs, raw_yaml=True, filename=fn)
        return dict(c)
    except Exception as e:
        ee = e
        while ee.__cause__ is not None: ee = ee.__cause__
        return 'ERR %s / %s %s' % (type(e).__name__, type(ee).__name__, str(ee)[:100])
print('C13 a', runs("r: !call:sig.f1 {0: 1, 1: 2}"))
print('C13 b', runs("r: !call:sig.f1 {0: 1, 2: 9, b: 5}"))
print('C13 c', runs("r: !call:sig.f1 {1: 2, a: 1}"))
print('C13 d', runs("r: !call:sig.f1 {0: 1, 1: 2, 3: 4}"))
print('C13 e', runs("r: !call:sig.f1 [1, 2]"))
print('C13 f', runs("r: !call:sig.f1 7") if False else None)
print('C13 g', runs("r: !call:sig.f2 {0: 1, 1: 2, 2: 3, k: 5, z: 6}"))
print('C13 h', runs("r: !call:sig.f2 {0: 1, 2: 3}"))
print('C13 i', runs("r: !call:sig.f3 {0: 1, k: 3}"))
print('C13 j', runs("r: !call:sig.f3 {0: 1, 2: 3}"))
print('C13 k', runs("r: !call:sig.f4 {0: 1, 2: 3}"))
print('C13 l', runs("r: !bind:sig.f1 {0: 1, c: 5}"))
print('C13 m', runs("r: !call:sig.f1 {0: 1, a: 5, 1: 2}"))
print('C13 n', runs("r: !call:sig.f1 {1: 5}"))
# merges
print('M a', runs("r: !call:sig.f1 {a: 1, b: 2}", "r: {b: 5}"))
print('M b', runs("r: !call:sig.f1 {a: 1, b: 2}", "r: [7, 8]"))
print('M c', runs("r: !call:sig.f1 {a: 1, b: 2}", "r: sig.f4"))
print('M d', runs("r: !call:sig.f1 {a: 1, b: 2}", "r: sig.f1"))
print('M e', runs("r: !call:sig.f1 {a: 1, b: 2}", "r: !call:sig.f4 {z: 1}"))
print('M f', runs("r: !call:sig.f1 {a: 1, b: 2}", "r: !call:sig.f1 {a: 9, b: 8}"))
print('M g', runs("r: !call:sig.f1 {a: 1, b: 2}", "r: !call:sig.f1 {a: 9}"))
print('M h', runs("r: !call:sig.f1 {a: 1, b: 2}", "r: !merge !call:sig.f4 {z: 1}") if False else None)
print('M i', runs("r: !call:sig.f1 {a: 1, b: 2}", "r: !metadata{{'delete': False}} {z: 1}"))
print('M j', runs("r: !call:sig.f1 {a: 1, b: 2}", "r: !bind:sig.f1 {a: 9, b: 1}"))
print('M k', runs("r: {a: 1, b: 2}", "r: !call:sig.f4 {z: 1}"))
print('M l', runs("r: !call:sig.f4 {a: 1, b: 2}", "r: !call:sig.f4:" + ay.yaml._encode_metadata({'delete': False}) + " {z: 1}"))
print('M m', runs("r: !call:sig.f1 {a: 1, b: 2}", "r: !call:sig.f4:" + ay.yaml._encode_metadata({'delete': False}) + " {z: 1}"))
print('M n', runs("r: !force !call:sig.f1 {a: 1}") if False else None)
print('M o', runs("r: !call:sig.f1 {a: 1, b: 2}", "r: !weak sig.f4"))
print('M p', runs("r: !call:sig.f1 {a: 1, b: 2}", "r: !call sig.f4"))
print('M q', runs("r: !call sig.f4"))
print('M r', runs("r: !call:sig.f1 {a: 1, b: 2}", "r: 5"))
# C11
c = ay.Config.build("a: {b: [1, {c: !call:sig.f4 {}}], d: !null, e: 1.5, f: true, g: x}", raw_yaml=True, filename='x.yaml')
def walk(x, p=''):
    if isinstance(x, ConfigNode): print('LEAK', p, type(x))
    if isinstance(x, dict):
        print(p, type(x).__name__)
        for k,v in x.items():
            if isinstance(k, ConfigNode): print('LEAK key', p, k)
            walk(v, p+'.'+str(k))
    elif isinstance(x, (list, tuple)):
        print(p, type(x).__name__)
        for i,v in enumerate(x): walk(v, p+'[%d]'%i)
    else: print(p, type(x).__name__, repr(x))
walk(c)
src = c.ayns.source
c2 = ay.Config(src); print('re-eval equal', c2 == c, dict(c2)==dict(c))
c.a.b.append(5); c.a['zz'] = 1
c3 = ay.Config(src); print('after mutation equal to original?', dict(c3) == dict(c2))
