-- usage: cd /verif/lean && lake env lean --run ../notes/probes/order_fuzz.lean <trees> <seed>
-- evaluates every permutation of the root children of random trees and reports trees whose
-- build outcome (ok / error) depends on the order (found the unsafe-intermediate-xref defect)
import AY.Model.Eval
open AY

structure Rng where
  s : Nat
def Rng.next (r : Rng) : Nat × Rng :=
  let s' := (r.s * 6364136223846793005 + 1442695040888963407) % (2^64)
  ((s' / 2^33), ⟨s'⟩)
def pick (r : Rng) (n : Nat) : Nat × Rng := let (x, r') := r.next; (x % n, r')

def names : List String := ["a", "b", "c", "d"]
def subs : List String := ["x", "y"]
def targets : List String := ["a", "b", "c", "d", "a.x", "b.x", "c.x", "a.y", "b.y", "a.x.x", "b.x.y", "", "zz", "a[0]", "b[0]"]

def mkFlags (u : Nat) : Flags := if u == 0 then { safe := some false } else {}

partial def genNode (depth : Nat) (r : Rng) : Node × Rng :=
  let (u, r) := pick r 6
  let fl := mkFlags u
  let (c, r) := pick r (if depth == 0 then 6 else 11)
  match c with
  | 0 => (.leaf fl (.scalar (.int 1)), r)
  | 1 | 2 => let (t, r) := pick r targets.length; (.leaf fl (.xref (targets[t]!)), r)
  | 3 => (.leaf fl (.imp "os"), r)
  | 4 =>
    let (t1, r) := pick r names.length
    let (t2, r) := pick r names.length
    (.leaf fl (.eval s!"T({names[t1]!}, {names[t2]!})"), r)
  | 5 => (.leaf fl (.scalar (.str "s")), r)
  | _ =>
    let (nc, r) := pick r 3
    let rec kids (i : Nat) (r : Rng) (acc : List (Key × Node)) (asList : Bool) : List (Key × Node) × Rng :=
      if i ≥ nc then (acc, r) else
      let (ch, r) := genNode (depth - 1) r
      let key := if asList then Key.int i else Key.str (subs[i]!)
      kids (i+1) r (acc ++ [(key, ch)]) asList
    match c with
    | 6 | 7 => let (cs, r) := kids 0 r [] false; (.comp fl .dict cs, r)
    | 8 => let (cs, r) := kids 0 r [] false; (.comp fl (.call "f") cs, r)
    | 9 => let (cs, r) := kids 0 r [] false; (.comp fl (.bind "f") cs, r)
    | _ => let (cs, r) := kids 0 r [] true; (.comp fl .list cs, r)

def world : World := { sigs := [("f", [{ name := "args", kind := .varPos }, { name := "kw", kind := .varKw }])], modules := ["os"], syms := ["T"] }

def perms {α : Type} : List α → List (List α)
  | [] => [[]]
  | x :: xs => (perms xs).flatMap (fun p => (List.range (p.length + 1)).map (fun i => p.take i ++ [x] ++ p.drop i))

def outcome (cs : List (Key × Node)) : String :=
  match evaluate world (.comp {} .dict cs) with
  | .ok _ => "ok"
  | .error e => toString (repr e)

def isOk (s : String) : Bool := s == "ok"

/-- the tainted paths of a successful build -/
def taintSet (cs : List (Key × Node)) : Option (List Path) :=
  match evaluate world (.comp {} .dict cs) with
  | .ok (_, st) => some st.tainted
  | .error _ => none

def sameSet (a b : List Path) : Bool := a.all (b.contains ·) && b.all (a.contains ·)

def main (args : List String) : IO Unit := do
  let n := (args[0]? >>= String.toNat?).getD 1000
  let seed := (args[1]? >>= String.toNat?).getD 1
  let mut r : Rng := ⟨seed⟩
  let mut nok := 0
  let mut nmixErr := 0
  let mut bad := 0
  let mut tbad := 0
  for _ in [0:n] do
    let (k, r1) := pick r 3
    r := r1
    let nk := k + 2
    let mut cs : List (Key × Node) := []
    for i in [0:nk] do
      let (c, r2) := genNode 2 r
      r := r2
      cs := cs ++ [(Key.str (names[i]!), c)]
    let outs := (perms cs).map outcome
    let oks := outs.filter isOk
    if oks.length == outs.length then nok := nok + 1
    if oks.length != 0 && oks.length != outs.length then
      bad := bad + 1
      IO.println s!"COUNTEREXAMPLE {repr cs}\n outcomes {outs}"
    if oks.length == 0 && (outs.eraseDups).length > 1 then nmixErr := nmixErr + 1
    if oks.length == outs.length then
      let ts := (perms cs).filterMap taintSet
      match ts with
      | [] => pure ()
      | t0 :: rest =>
        if !(rest.all (sameSet t0 ·)) then
          tbad := tbad + 1
          IO.println s!"TAINT-COUNTEREXAMPLE {repr cs}"
  IO.println s!"trees {n}: all-ok {nok}, mixed error kinds {nmixErr}, outcome-dependent {bad}, taint-set-dependent {tbad}"
