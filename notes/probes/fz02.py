import random, yaml, awesomeyaml as ay, sys
from awesomeyaml.errors import MergeError
def gen(r, d=0):
    t = r.random()
    if d >= 3 or t < 0.35: return r.choice([0, 1, 2, 'x', 'y', None, True, 1.5, ''])
    if t < 0.6: return [gen(r, d+1) for _ in range(r.randint(0, 3))]
    return {r.choice(['a','b','c',0,1,2]): gen(r, d+1) for _ in range(r.randint(0, 3))}
def gendoc(r): return {r.choice(['a','b','c']): gen(r, 1) for _ in range(r.randint(0, 3))}
class Err(Exception): pass
def upd(a, b):
    if isinstance(b, dict):
        if isinstance(a, dict):
            a = dict(a)
            for k, v in b.items():
                a[k] = upd(a[k], v) if k in a else v
            return a
        if isinstance(a, list):
            a = list(a)
            for k, v in b.items():
                if not isinstance(k, int) or isinstance(k, bool): raise Err()
                if k >= len(a) or k < -len(a): raise Err()
            for k, v in b.items():
                a[k] = upd(a[k], v)
            return a
    return b
def plain(x):
    if isinstance(x, dict): return {k: plain(v) for k, v in x.items()}
    if isinstance(x, list): return [plain(v) for v in x]
    return x
def sig(x):
    if isinstance(x, dict): return ('d', [(sig(k), sig(v)) for k, v in x.items()])
    if isinstance(x, list): return ('l', [sig(v) for v in x])
    return (type(x).__name__, x)
bad = 0
for seed in range(int(sys.argv[1])):
    r = random.Random(seed)
    docs = [gendoc(r) for _ in range(r.randint(1, 4))]
    try:
        exp = docs[0]
        for d in docs[1:]: exp = upd(exp, d)
    except Err: exp = 'ERR'
    txt = [yaml.safe_dump(d, sort_keys=False) for d in docs]
    try:
        got = plain(ay.Config.build(*txt, raw_yaml=True))
        if not docs[0] and got == {} : pass
    except MergeError: got = 'ERR'
    except Exception as e: got = 'EXC %s %s' % (type(e).__name__, str(e)[:100])
    if sig(got) != sig(exp):
        bad += 1
        if bad <= 12: print(seed, docs, '\n   exp', exp, '\n   got', got)
print('bad', bad)
