import awesomeyaml as ay, yaml, traceback
from awesomeyaml.builder import Builder
def build(*docs, **kw):
    try:
        return dict_of(ay.Config.build(*docs, raw_yaml=True, **kw))
    except Exception as e:
        return 'ERR %s: %s' % (type(e).__name__, str(e).splitlines()[0][:150])
def dict_of(x):
    if isinstance(x, dict): return {k: dict_of(v) for k,v in x.items()}
    if isinstance(x, list): return [dict_of(v) for v in x]
    return x
print('C01 a', build("a: !force\n  b:\n    c: [1,2]\n"))
print('C01 b', build("a: !weak {b: {c: [1,2], d: {e: [3]}}}"))
print('C01 c', build("a: {b: {c: [1,2]}}"))
print('C01 d', build("a: !del [ [1,2], {x: [3,4]} ]"))
print('C01 e', build("!force\na: {b: [1,2]}"))
print('C03 a', build("a: !force {b: {c: 1}}", "a: {b: {c: 2}}"))
print('C03 b', build("a: !force {b: 1}", "a: {b: 2}"))
print('C03 c', build("a: !weak 1", "a: !force 2", "a: 3", "a: !weak 4"))
print('C04 a', build("x: {a: {p: 1, q: 2}}", "x: {a: !del {q: 3}}"))
print('C04 b', build("a: {p: 1, q: 2}", "a: !del {q: 3}"))
print('C04 c', build("x: {a: {x: 1, q: 2}}", "x: {a: !del {q: 3}}"))
print('C04 d', build("x: {a: {a: 1, q: 2}}", "x: {a: !del {q: 3}}"))
print('C04 e', build("x: {a: [1,2,3]}", "x: {a: [9]}"))
print('C04 f', build("a: [1,2,3]", "a: [9]"))
print('C04 g', build("a: [1,2,3]", "a: !merge [9]"))
print('C04 h', build("a: {b: 1, c: 2}", "a: !clear"))
print('C04 i', build("a: {b: 1, c: 2}", "a: !del"))
