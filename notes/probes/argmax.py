import random, sys
sys.path.insert(0, sys.argv[1])
import awesomeyaml as ay
from awesomeyaml.builder import Builder
N = int(sys.argv[2])
KEYS = ['a','b','c']
PT = [None]*5 + ['!force','!weak']
PV = {None: 0, '!force': 1, '!weak': -1}
# fixed skeleton per seed so that documents are shape-compatible
def skeleton(r, d=0):
    if d >= 3 or r.random() < 0.35: return None
    return {k: skeleton(r, d+1) for k in r.sample(KEYS, r.randint(1,3))}
def doc(r, sk, ctr, top=True):
    # returns (tag, value) choosing a sub-skeleton
    tag = r.choice(PT)
    if sk is None:
        ctr[0] += 1
        return (tag, ctr[0])
    ks = [k for k in sk if r.random() < 0.7] or ([r.choice(list(sk))] if top else [])
    return (tag if not top else None, {k: doc(r, sk[k], ctr, False) for k in ks})
def emit(n, ind=0):
    tag, v = n
    pre = (tag + ' ') if tag else ''
    sp = '  '*ind
    if isinstance(v, dict):
        if not v: return pre + '{}'
        return pre + ''.join('\n%s%s: %s' % (sp, k, emit(c, ind+1)) for k, c in v.items())
    return pre + str(v)
def leaves(n, inherited=None, path=()):
    tag, v = n
    eff = inherited if inherited is not None else (tag if tag else None)
    if isinstance(v, dict):
        for k, c in v.items(): yield from leaves(c, eff, path+(k,))
    else:
        yield path, PV[eff], v
def flat(x, path=()):
    if isinstance(x, dict):
        for k, v in x.items(): yield from flat(v, path+(str(k),))
    else: yield path, x
bad = 0
for seed in range(N):
    r = random.Random(seed)
    sk = {k: skeleton(r, 1) for k in r.sample(KEYS, r.randint(1,3))}
    ctr = [0]
    docs = [doc(r, sk, ctr) for _ in range(r.randint(2,5))]
    best = {}
    for i, d in enumerate(docs):
        for p, pr, v in leaves(d):
            if p not in best or pr >= best[p][0]: best[p] = (pr, v)
    # drop paths shadowed by empty dicts: if a doc has {} at an internal path, skeleton guarantee holds (dict stays dict)
    b = Builder()
    for d in docs: b.add_source(emit(d).lstrip('\n') + '\n', raw_yaml=True)
    try:
        got = dict(flat(b.build().ayns.native_value))
    except Exception as e:
        got = 'ERR %s' % e
    exp = {p: v for p, (pr, v) in best.items()}
    if got != 'ERR' and isinstance(got, dict):
        got = {p: v for p, v in got.items() if not isinstance(v, dict)}
    if got != exp:
        bad += 1
        if bad <= 3:
            print('seed', seed); [print(repr(emit(d))) for d in docs]; print('  exp', exp); print('  got', got)
print('bad', bad, 'of', N)
