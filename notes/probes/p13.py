from awesomeyaml.nodes import ConfigNode, ConfigDict, ConfigList
from awesomeyaml.eval_context import EvalContext
def show(l):
    return list(l), list(l.ayns.named_children())
l = ConfigList([1,2])
l.insert(0, 9); print('insert0', show(l), EvalContext().evaluate(ConfigDict({'l': l})))
l = ConfigList([]); l.append(1); l.append(2); l.insert(0, 5); print(show(l))
l = ConfigList([1,2,3]); del l[0]; print('del0', show(l))
l = ConfigList([1,2,3]); l.remove(2); print('remove', show(l))
l = ConfigList([1,2,3]); 
try:
    r = l.pop(); print('pop', r, show(l))
except Exception as e: print('pop ERR', type(e), e)
l = ConfigList([1,2,3]); l[-1] = 7; print('set-1', show(l))
l = ConfigList([1,2,3]); 
try: l[3] = 7; print('set3', show(l))
except Exception as e: print('set3 ERR', type(e).__name__, e)
l = ConfigList([1,2,3]); l.ayns.set_child(7, 5); print('set_child 7', show(l))
l = ConfigList([1,2,3]); l.insert(-1, 5); print('insert -1', show(l))
l = ConfigList([1,2,3]); l.insert(10, 5); print('insert 10', show(l))
l = ConfigList([1,2,3]); l.insert(-10, 5); print('insert -10', show(l))
l = ConfigList([1,2,3]); l += [4]; print('iadd', show(l))
l = ConfigList([1,2,3]); l.reverse(); print('reverse', show(l))
l = ConfigList([3,1,2]); l.sort(); print('sort', show(l))
l = ConfigList([1,2,3]); l[0:2] if False else None
try:
    l[0:2] = [7]; print('slice set', show(l))
except Exception as e: print('slice ERR', type(e).__name__, e)
try:
    print('slice get', l[0:2])
except Exception as e: print('slice get ERR', type(e).__name__, e)
d = ConfigDict({'a': 1, 'b': 2})
d.pop('a'); print('dpop', dict(d), list(d.ayns.named_children()))
d = ConfigDict({'a': 1, 'b': 2}); d.update({'c': 3}, e=4); print(dict(d), list(d.ayns.named_children()))
d = ConfigDict({'a': 1, 'b': 2}); d['_x'] = 5; print('underscore', dict(d), list(d.ayns.named_children()))
d = ConfigDict({'_y': 1}); print('underscore init', dict(d), list(d.ayns.named_children()))
d = ConfigDict({'a': 1, 'b': 2}); d.ayns.rename_child('a', 'z'); print('rename', dict(d), list(d.ayns.named_children()))
d = ConfigDict({'a': 1, 'b': 2}); 
try: print(d.popitem())
except Exception as e: print('popitem ERR', type(e).__name__, e)
d = ConfigDict({'a': 1, 'b': 2}); d.setdefault('a', 5); d.setdefault('q', 6); print(dict(d), list(d.ayns.named_children()))
d = ConfigDict({'a': 1, 'b': 2}); del d['a']; d.a = 5; print(dict(d), list(d.ayns.named_children()))
d = ConfigDict({'a': {'b': [1, {'c': 2}]}})
for p, n in d.ayns.nodes_with_paths(): print(repr(p), n, d.ayns.get_node(p) is n, d.ayns.get_node(str(p)) is n)
d = ConfigDict({'a': 1}); d |= {'b': 2}; print('ior', dict(d), list(d.ayns.named_children()))
l = ConfigList([1,2,3]); l.ayns.rename_child(0, 5); print('rename list', show(l))
l = ConfigList([1,2,3]); l.ayns.remove_child(0); print('remove_child list', show(l))
l = ConfigList([1,2,3]); l *= 2; print('imul', show(l))
