import awesomeyaml as ay, copy, pickle, sys
sys.path.insert(0,'/tmp/probe')
from awesomeyaml.builder import Builder
def tree(src, safe=None):
    b = Builder()
    b.add_source(src, raw_yaml=True, safe=safe)
    return b.stages[0]
def info(d):
    return [(str(p), type(n).__name__, {k:v for k,v in n.ayns.node_info.items() if k not in ('idx',) and v not in (None, {})}, getattr(n,'_func',None), getattr(n,'ref_point',None), n if n.ayns.is_leaf and not isinstance(n, dict) else None) for p,n in d.ayns.nodes_with_paths(include_self=True)]
def chk(src, **kw):
    t = tree(src, **kw)
    for name, fn in (('deepcopy', copy.deepcopy), ('pickle', lambda x: pickle.loads(pickle.dumps(x)))):
        try:
            c = fn(t)
            a, b = info(t), info(c)
            shared = set(map(id, t.ayns.nodes(include_self=True))) & set(map(id, c.ayns.nodes(include_self=True)))
            print(repr(src), name, 'same' if a==b else 'DIFF', 'shared=%d' % len(shared))
            if a!=b:
                for x,y in zip(a,b):
                    if x!=y: print('    ', x, '!=', y)
        except Exception as e:
            print(repr(src), name, 'ERR', type(e).__name__, str(e)[:200])
chk("a: 1\nb: [1, {c: 2}]")
chk("a: !force {b: [1, {c: !weak 2}]}")
chk("a: !del {b: !merge [1, {c: 2}]}")
chk("a: !unsafe {b: [1, {c: 2}]}")
chk("a: !notnew {b: [1, {c: !new {d: 1}}]}")
chk("a: !call:rec.f {x: [1,2], 0: !xref b}\nb: !bind:rec.f [1]")
chk("a: !path:parent(1) [x, y]\nb: !eval 1+1\nc: f'{a}'\nd: !required\ne: !import os\ng: !null\nh: !metadata{{'u': [1,2]}} 5")
chk("a: !append [1]\nb: !extend [2]\nc: !prev a\nd: !clear\ne: !include x.yaml")
chk("a: !unsafe {b: [1, {c: 2}]}", safe=False)
chk("a: {b: !unsafe [1, {c: 2}]}")
chk("a: !merge [ [1], {x: [2]} ]")
