import sys, threading, random, os, tempfile
ROOT = sys.argv[1]; sys.path.insert(0, ROOT)
import awesomeyaml as ay
from awesomeyaml.builder import Builder
from awesomeyaml.nodes.node import ConfigNode
MUT = len(sys.argv) > 3 and sys.argv[3] == 'mut'
if MUT:
    class Plain: pass
    ConfigNode._default_filename = Plain()   # simulate: threading.local replaced by plain attribute
SWITCH_FILES = ('nodes/node.py', 'builder.py')
class Sched:
    def __init__(self, n, seed):
        self.r = random.Random(seed); self.n = n; self.cv = threading.Condition(); self.cur = 0; self.alive = set(range(n)); self.trace = []
    def yield_point(self, tid):
        with self.cv:
            if len(self.alive) > 1 and self.r.random() < 0.3:
                self.cur = self.r.choice(sorted(self.alive)); self.trace.append(self.cur); self.cv.notify_all()
            while self.cur != tid: self.cv.wait()
    def start(self, tid):
        with self.cv:
            while self.cur != tid: self.cv.wait()
    def done(self, tid):
        with self.cv:
            self.alive.discard(tid)
            if self.alive: self.cur = min(self.alive)
            self.cv.notify_all()
def run(seed):
    d = tempfile.mkdtemp()
    files = []
    for i in range(2):
        p = os.path.join(d, f'f{i}.yaml'); open(p, 'w').write(f"a{i}: {{b: [1, 2, {{c: {i}}}]}}\nz: {i}\n"); files.append(p)
    s = Sched(2, seed); out = {}
    def tracer_for(tid):
        def tr(frame, event, arg):
            fn = frame.f_code.co_filename
            if not fn.endswith(SWITCH_FILES): return None
            def local(frame, event, arg):
                if event == 'line': s.yield_point(tid)
                return local
            return local
        return tr
    def worker(tid):
        s.start(tid)
        sys.settrace(tracer_for(tid))
        try:
            b = Builder(); b.add_source(files[tid], safe=(tid == 0)); t = b.build()
            out[tid] = [(str(p), n.ayns.source_file, n._default_safe) for p, n in t.ayns.nodes_with_paths(include_self=True)]
        except Exception as e:
            out[tid] = 'ERR %r' % e
        finally:
            sys.settrace(None); s.done(tid)
    ts = [threading.Thread(target=worker, args=(i,)) for i in range(2)]
    [t.start() for t in ts]; [t.join() for t in ts]
    bad = []
    for tid in range(2):
        if isinstance(out[tid], str): bad.append((tid, out[tid])); continue
        for p, sf, ds in out[tid]:
            if sf != files[tid] or ds != (tid == 0): bad.append((tid, p, sf, ds))
    return bad, len(s.trace)
nbad = 0
for seed in range(int(sys.argv[2])):
    bad, sw = run(seed)
    if bad:
        nbad += 1
        if nbad <= 2: print('seed', seed, 'switches', sw, bad[:3])
print('bad seeds', nbad)
