import awesomeyaml as ay, sys, os
from awesomeyaml.builder import Builder
sys.path.insert(0,'/tmp/probe')
open('/tmp/probe/rec.py','w').write("LOG=[]\ndef f(*a, **k):\n    LOG.append((a,k)); return ('ret',a,k)\n")
import rec
def run(srcs):
    rec.LOG.clear()
    b = Builder()
    try:
        for s, safe in srcs:
            b.add_source(s, raw_yaml=True, safe=safe)
        cfg = ay.Config(b.build())
        r = dict(cfg)
    except Exception as e:
        r = 'ERR %s' % type(e).__name__
    return r, list(rec.LOG)
print(1, run([("f: !call:rec.f {x: 1}", False)]))
print(2, run([("f: !call:rec.f {x: 1}", False), ("f: {x: 2}", True)]))
print(3, run([("f: !required", True), ("f: !call:rec.f {x: 1}", False)]))
print(4, run([("f: !call:rec.f {x: 1}", False), ("g: 1", True)]))
print(5, run([("f: !call:rec.f {x: 1}", True), ("f: {x: 2}", False)]))
print(6, run([("f: !call:rec.f {x: 1}", True), ("f: !unsafe {x: 2}", True)]))
print(7, run([("f: !unsafe 1", True), ("f: !call:rec.f {x: 2}", True)]))
print(8, run([("f: 1", False), ("f: !call:rec.f {x: 2}", True)]))
print(9, run([("f: !call:rec.f {x: !xref d}\nd: 5", True), ("d: 6", False)]))
print(10, run([("f: !call:rec.f {x: 1}", True), ("f: rec.f", False)]))
print(11, run([("f: !call:rec.f {x: 1}", True), ("f: !unsafe {}", True)]))
print(12, run([("f: !call:rec.f {x: 1}", True), ("f: !unsafe {x: !del }", True)]))
print(13, run([("!unsafe\nf: {g: !call:rec.f {x: 1}}", True)]))
print(14, run([("f: !unsafe {g: {h: !call:rec.f {x: 1}}}", True)]))
print(15, run([("f: {g: !eval '1+1'}", False)]))
print(16, run([("f: !eval 'd'\nd: !unsafe 3", True)]))
print(17, run([("f: {g: 1}", False), ("f: {g: !call:rec.f {}}", True)]))
print(18, run([("f: {g: !call:rec.f {}}", True), ("f: {h: 1}", False)]))
print(19, run([("f: !required", True), ("f: !call:rec.f {x: 1}", False), ("g: 1", True)]))
print(20, run([("f: !call:rec.f {x: 1}", False), ("f: !required", True)]))
