import random, sys, copy
sys.path.insert(0, sys.argv[1])
import awesomeyaml as ay
from awesomeyaml.builder import Builder
N = int(sys.argv[2])
KEYS = ['a','b','c','k']
TAGS = [None]*6 + ['!force','!weak','!del','!merge']
def gen(r, d, tags=True, lists=True):
    t = r.random()
    tag = r.choice(TAGS) if tags else None
    if d >= 3 or t < 0.4: return (tag, r.choice([0,1,2,'x','y',None]))
    if t < 0.6 and lists: return (tag, [gen(r, d+1, tags, lists) for _ in range(r.randint(0,3))])
    ks = r.sample(KEYS, r.randint(0,3))
    return (tag, {k: gen(r, d+1, tags, lists) for k in ks})
def gendoc(r, **kw):
    ks = r.sample(KEYS, r.randint(1,3))
    return (None, {k: gen(r, 1, **kw) for k in ks})
def emit(n, ind=0, extra=None):
    tag, v = n
    if extra: tag = extra if tag is None else tag
    pre = (tag + ' ') if tag else ''
    sp = '  '*ind
    if isinstance(v, dict):
        if not v: return pre + '{}'
        return pre + ''.join('\n%s%s: %s' % (sp, k, emit(c, ind+1)) for k, c in v.items())
    if isinstance(v, list):
        if not v: return pre + '[]'
        return pre + ''.join('\n%s- %s' % (sp, emit(c, ind+1)) for c in v)
    if v is None: return pre + '~'
    return pre + repr(v) if isinstance(v, str) else pre + str(v)
def text(doc, roottag=None):
    s = emit(doc, 0)
    if s.startswith('\n'): s = s[1:]
    if roottag: s = roottag + '\n' + s
    return s + '\n'
def plain(x):
    if isinstance(x, dict): return {k: plain(v) for k, v in x.items()}
    if isinstance(x, list): return [plain(v) for v in x]
    return x
def build(texts):
    try:
        b = Builder()
        for t in texts: b.add_source(t, raw_yaml=True)
        r = b.build()
        return plain(r.ayns.native_value) if r is not None else None
    except Exception as e:
        return 'ERR ' + type(e).__name__
def unordered(x):
    if isinstance(x, dict): return ('d', sorted((repr(k), unordered(v)) for k, v in x.items()))
    if isinstance(x, list): return ('l', [unordered(v) for v in x])
    return x
def wrap(doc, k): return (None, {k: doc})
def has_remove_idiom(n):
    tag, v = n
    if tag == '!del' and not v and not isinstance(v, bool) : return True
    if isinstance(v, dict): return any(has_remove_idiom(c) for c in v.values())
    if isinstance(v, list): return any(has_remove_idiom(c) for c in v)
    return False
def permute(r, n):
    tag, v = n
    if isinstance(v, dict):
        items = list(v.items()); r.shuffle(items)
        return (tag, {k: permute(r, c) for k, c in items})
    if isinstance(v, list): return (tag, [permute(r, c) for c in v])
    return n
stats = {}
def bump(k): stats[k] = stats.get(k, 0) + 1
shown = {}
def report(kind, seed, docs, a, b):
    bump('FAIL ' + kind)
    if shown.get(kind, 0) < 3:
        shown[kind] = shown.get(kind, 0) + 1
        print('---', kind, 'seed', seed); [print(repr(text(d))) for d in docs]; print('   ', a); print('   ', b)
for seed in range(N):
    r = random.Random(seed)
    docs = [gendoc(r) for _ in range(r.randint(2, 4))]
    ts = [text(d) for d in docs]
    base = build(ts)
    bump('err' if isinstance(base, str) else 'ok')
    # determinism
    if build(ts) != base: report('determinism', seed, docs, base, None)
    # wrap
    k = r.choice(KEYS)
    w = build([text(wrap(d, k)) for d in docs])
    exp = base if isinstance(base, str) else {k: base}
    if w != exp: report('wrap', seed, docs, base, w)
    if isinstance(base, str): continue
    # empty neutral
    i = r.randint(0, len(ts))
    e = build(ts[:i] + ['{}\n'] + ts[i:])
    if e != base: report('empty', seed, docs, base, e)
    # repeat last
    if not has_remove_idiom(docs[-1]):
        rp = build(ts + [ts[-1]])
        if rp != base: report('repeat', seed, docs, base, rp)
    # key permutation
    pd = [permute(r, d) for d in docs]
    p = build([text(d) for d in pd])
    if isinstance(p, str) or unordered(p) != unordered(base): report('perm', seed, docs, base, p)
    # flag neutral: mark root of a random doc !unsafe or !new
    j = r.randrange(len(ts)); mark = r.choice(['!unsafe', '!new'])
    f = build(ts[:j] + [text(docs[j], roottag=mark)] + ts[j+1:])
    if f != base: report('flag ' + mark, seed, docs, base, f)
print(stats)
