import M
open AYp AYp.Node

theorem ite_ok {ε α} (c : Prop) [Decidable c] (x y : α) :
    (if c then (Except.ok x : Except ε α) else Except.ok y) = Except.ok (if c then x else y) := by
  split <;> rfl

/-- wrapper as the loader builds it: an untagged mapping that adopted its only child -/
def wrap (k : Key) (n : Node) : Node := .comp {} .dict [(k, adopt none n)]

/-- C05-style locality on the prototype: merging two wrappers is determined by merging the wrapped nodes
    (the last clause of each branch is the remove-this-key idiom). -/
theorem mergeF_wrap (n : Nat) (k : Key) (a b : Node) :
    mergeF (n+1) (wrap k a) (wrap k b) =
      (match mergeF n (adopt none a) (adopt none b) with
       | .error e => .error e
       | .ok (r, same) =>
         let cs :=
           if (adopt none a).isComp then
             if r.falsy ∧ ¬ r.ePrio.gt (adopt none b).ePrio ∧ (adopt none b).explicitDel then []
             else if same then [(k, r)] else [(k, adopt none r)]
           else
             if same then [(k, adopt none a)]
             else if r.falsy ∧ r.explicitDel then [] else [(k, adopt none r)]
         .ok (Node.comp {} .dict (adoptAll none cs), true)) := by
  have hbd : (wrap k b).eDel = false := by simp [wrap, Node.eDel, Node.fl, Node.defaultDel]
  unfold wrap at hbd ⊢
  have hl : lookup k [(k, adopt none a)] = some (adopt none a) := by simp [lookup]
  simp [mergeF, hbd, List.foldlM, bind, Except.bind, pure, Except.pure]
  simp only [stepWith, getChild, hl]
  cases h : mergeF n (adopt none a) (adopt none b) with
  | error e => rfl
  | ok p =>
    obtain ⟨r, same⟩ := p
    by_cases hc : (adopt none a).isComp = true <;> cases same <;>
      simp [hc, ite_ok, finish, Node.ePrio, Node.fl, Prio.ge, Prio.toInt, childIDel, Node.defaultDel,
            removeChild, eraseKey, setKey', setKey, setChild, adoptAll] <;>
      split <;> simp_all [adoptAll]

#print axioms mergeF_wrap
