/-! Scratch feasibility prototype (not framework code): reduced, structurally faithful merge. -/
namespace AYp

inductive Key | int (i : Int) | str (s : String)
  deriving DecidableEq, Repr

inductive Prio | weak | std | force
  deriving DecidableEq, Repr
def Prio.toInt : Prio → Int | .weak => -1 | .std => 0 | .force => 1
def Prio.gt (a b : Prio) : Bool := decide (a.toInt > b.toInt)
def Prio.ge (a b : Prio) : Bool := decide (a.toInt ≥ b.toInt)

structure Fl where
  prio : Option Prio := none
  del  : Option Bool := none
  iDel : Option Bool := none
  deriving DecidableEq, Repr

inductive Kind | dict | list
  deriving DecidableEq, Repr

inductive Node where
  | leaf (f : Fl) (v : String)
  | comp (f : Fl) (k : Kind) (cs : List (Key × Node))
  deriving Repr

namespace Node
def fl : Node → Fl | leaf f _ => f | comp f _ _ => f
def ePrio (n : Node) : Prio := n.fl.prio.getD .std
def defaultDel : Node → Bool | comp _ .list _ => true | _ => false
def eDel (n : Node) : Bool := match n.fl.del with
  | some b => b
  | none => match n.fl.iDel with | some b => b | none => n.defaultDel
def explicitDel (n : Node) : Bool := n.fl.del == some true
def falsy : Node → Bool
  | leaf _ v => v == "" || v == "0" || v == "~"
  | comp _ _ cs => cs.isEmpty
def isComp : Node → Bool | comp .. => true | _ => false
def withFl (n : Node) (f : Fl) : Node := match n with
  | leaf _ v => leaf f v | comp _ k cs => comp f k cs
end Node

abbrev KVs := List (Key × Node)

def lookup (k : Key) : KVs → Option Node
  | [] => none
  | (k', v) :: r => if k = k' then some v else lookup k r
def setKey (k : Key) (v : Node) : KVs → KVs
  | [] => [(k, v)]
  | (k', v') :: r => if k = k' then (k', v) :: r else (k', v') :: setKey k v r
def eraseKey (k : Key) : KVs → KVs
  | [] => []
  | (k', v') :: r => if k = k' then r else (k', v') :: eraseKey k r
/-- renumber a list-like child map 0..n-1 (what `_del` on a ConfigList achieves) -/
def renum (cs : KVs) : KVs := (List.range cs.length).zip (cs.map (·.2)) |>.map (fun p => (Key.int p.1, p.2))

/-- flags a child receives when adopted by `parent` (repaired `_get_child_kwargs`) -/
def childIDel (parent : Node) : Option Bool :=
  match parent.fl.del with
  | some b => some b
  | none => match parent.fl.iDel with
    | some b => some b
    | none => if parent.defaultDel then some true else none

mutual
/-- adoption = set implicit flag and re-propagate to descendants (repaired `_propagate_implicit_values`) -/
def adopt (i : Option Bool) : Node → Node
  | .leaf f v => .leaf { f with iDel := i } v
  | .comp f k cs =>
    let f' := { f with iDel := i }
    .comp f' k (adoptAll (childIDel (.comp f' k [])) cs)
def adoptAll (i : Option Bool) : KVs → KVs
  | [] => []
  | (k, v) :: r => (k, adopt i v) :: adoptAll i r
end

/-- leaf rule of `ConfigNode.on_merge_impl`: returns the survivor and whether it is the older node -/
def leafRule (a b : Node) : Node × Bool :=
  if a.ePrio.gt b.ePrio then (a, true) else (b, false)

/-- `filter_nodes(maybe_keep)` of the older tree under a deleting newer node (relative paths, D04 repaired,
    D05 repaired: a composed child survives iff it is kept itself or still has children). -/
def firstNotMissing (root : Node) : List Key → Node
  | [] => root
  | k :: ks => match root with
    | .comp _ _ cs => match lookup k cs with
      | some c => firstNotMissing c ks
      | none => root
    | .leaf .. => root

mutual
def prune (other : Node) (path : List Key) : Node → Node
  | .leaf f v => .leaf f v
  | .comp f k cs =>
    let cs' := pruneKVs other path cs
    .comp f k (if k = .list then renum cs' else cs')
def pruneKVs (other : Node) (path : List Key) : KVs → KVs
  | [] => []
  | (k, v) :: r =>
    let p := path ++ [k]
    let keepSelf := v.ePrio.gt (firstNotMissing other p).ePrio
    let v' := prune other p v
    let keep := keepSelf || (match v' with | .comp _ _ cs => !cs.isEmpty | _ => false)
    if keep then (k, v') :: pruneKVs other path r else pruneKVs other path r
end

inductive Err | merge (msg : String)
  deriving Repr, DecidableEq

def listIndexOk (len : Nat) : Key → Bool
  | .int i => decide (¬ (i.natAbs > len ∨ i = len))
  | .str _ => false
def normIndex (len : Nat) (i : Int) : Nat := if i < 0 then (Int.toNat (len + i)) else i.toNat

def getChild (k : Kind) (cs : KVs) (key : Key) : Option Node :=
  match k with
  | .dict => lookup key cs
  | .list => match key with
    | .int i => if listIndexOk cs.length key then lookup (.int (normIndex cs.length i)) cs else none
    | .str _ => none
def setChild (parent : Node) (k : Kind) (cs : KVs) (key : Key) (v : Node) : KVs :=
  let v' := adopt (childIDel parent) v
  match k with
  | .dict => setKey key v' cs
  | .list => match key with
    | .int i => if listIndexOk cs.length key then setKey (.int (normIndex cs.length i)) v' cs
                else cs ++ [(.int cs.length, v')]
    | .str _ => cs
def removeChild (k : Kind) (cs : KVs) (key : Key) : KVs :=
  match k with
  | .dict => eraseKey key cs
  | .list => match key with
    | .int i => renum (eraseKey (.int (normIndex cs.length i)) cs)
    | .str _ => cs

/-- in-place update of a surviving composed child (no re-adoption: same object) -/
def setKey' (k : Kind) (cs : KVs) (key : Key) (v : Node) : KVs :=
  match k with
  | .dict => setKey key v cs
  | .list => match key with
    | .int i => setKey (.int (normIndex cs.length i)) v cs
    | .str _ => cs

/-- body of the key loop of `ComposedNode.on_merge_impl`, parameterised by the recursive call -/
def stepWith (rec : Node → Node → Except Err (Node × Bool)) (a : Node) (ka : Kind)
    (acc : KVs) (kv : Key × Node) : Except Err KVs :=
  match getChild ka acc kv.1 with
  | none => .ok (setChild a ka acc kv.1 kv.2)
  | some child =>
    match rec child kv.2 with
    | .error e => .error e
    | .ok (r, same) =>
      if child.isComp then
        if r.falsy ∧ ¬ r.ePrio.gt kv.2.ePrio ∧ kv.2.explicitDel then .ok (removeChild ka acc kv.1)
        else if same then .ok (setKey' ka acc kv.1 r) else .ok (setChild a ka acc kv.1 r)
      else
        if same then .ok acc
        else if r.falsy ∧ r.explicitDel then .ok (removeChild ka acc kv.1)
        else .ok (setChild a ka acc kv.1 r)

/-- `_replace_self`/`_replace_other` on the container itself + re-propagation -/
def finish (fa : Fl) (ka : Kind) (a b : Node) (cs : KVs) : Node :=
  let fa' : Fl := if b.ePrio.ge a.ePrio then { fa with prio := b.fl.prio, del := b.fl.del } else fa
  Node.comp fa' ka (adoptAll (childIDel (.comp fa' ka [])) cs)

/-- the merge proper, fuel = depth bound on the newer tree -/
def mergeF : Nat → Node → Node → Except Err (Node × Bool)
  | 0, _, _ => .error (.merge "fuel")
  | _+1, a@(.leaf ..), b => .ok (leafRule a b)
  | _+1, a@(.comp ..), b@(.leaf ..) => .ok (leafRule a b)
  | n+1, a@(.comp fa ka ca), b@(.comp _ kb cb) =>
    if ka = .list ∧ kb = .dict ∧ ¬ cb.all (fun p => listIndexOk ca.length p.1) then
      .error (.merge "invalid list index")
    else
      let a' : Node := if b.eDel then prune b [] a else a
      let ca' := match a' with | .comp _ _ cs => cs | _ => []
      if b.eDel ∧ ca'.isEmpty ∧ b.ePrio.ge a.ePrio then .ok (b, false)
      else
        match cb.foldlM (stepWith (mergeF n) a ka) ca' with
        | .error e => .error e
        | .ok cs'' => .ok (finish fa ka a b cs'', true)

def depth : Node → Nat
  | .leaf .. => 1
  | .comp _ _ cs => 1 + depthKVs cs
where depthKVs : KVs → Nat
  | [] => 0
  | (_, v) :: r => max (depth v) (depthKVs r)

def merge (a b : Node) : Except Err Node := (mergeF (depth b + 1) a b).map (·.1)

-- concrete sanity checks (kernel reduction, no native_decide)
def L (s : String) : Node := .leaf {} s
def D (cs : KVs) : Node := .comp {} .dict cs
example : (merge (D [(.str "a", L "1"), (.str "b", L "2")]) (D [(.str "b", L "3"), (.str "c", L "4")])).toOption.map
    (fun n => match n with | .comp _ _ cs => cs.map (fun p => (p.1, match p.2 with | .leaf _ v => v | _ => "?")) | _ => [])
    = some [(.str "a", "1"), (.str "b", "3"), (.str "c", "4")] := by rfl
end AYp
