import M
open AYp AYp.Node

@[simp] theorem ok_bind {ε α β} (a : α) (f : α → Except ε β) : (Except.ok a >>= f) = f a := rfl
@[simp] theorem err_bind {ε α β} (e : ε) (f : α → Except ε β) : (Except.error e >>= f) = Except.error e := rfl
@[simp] theorem pure_eq_ok {ε α} (a : α) : (pure a : Except ε α) = Except.ok a := rfl

/-! ## spec: right-biased recursive update on plain mapping trees -/
inductive P where
  | leaf (v : String)
  | dict (cs : List (Key × P))

def lookupP (k : Key) : List (Key × P) → Option P
  | [] => none
  | (k', v) :: r => if k = k' then some v else lookupP k r
def setKeyP (k : Key) (v : P) : List (Key × P) → List (Key × P)
  | [] => [(k, v)]
  | (k', v') :: r => if k = k' then (k', v) :: r else (k', v') :: setKeyP k v r

mutual
def upd : P → P → P
  | .dict a, .dict b => .dict (updKVs a b)
  | _, b => b
def updKVs (a : List (Key × P)) : List (Key × P) → List (Key × P)
  | [] => a
  | (k, v) :: r =>
    match lookupP k a with
    | none => updKVs (setKeyP k v a) r
    | some old => updKVs (setKeyP k (upd old v) a) r
end

/-! ## plain trees and their image -/
mutual
def strip : Node → P
  | .leaf _ v => .leaf v
  | .comp _ _ cs => .dict (stripKVs cs)
def stripKVs : KVs → List (Key × P)
  | [] => []
  | (k, v) :: r => (k, strip v) :: stripKVs r
end

mutual
def plain : Node → Bool
  | .leaf f _ => f == {}
  | .comp f k cs => f == {} && k == .dict && plainKVs cs
def plainKVs : KVs → Bool
  | [] => true
  | (_, v) :: r => plain v && plainKVs r
end

theorem plain_fl {n : Node} (h : plain n = true) : n.fl = {} := by
  cases n <;> simp_all [plain, Node.fl]

theorem plain_comp {f k cs} (h : plain (.comp f k cs) = true) : f = {} ∧ k = .dict ∧ plainKVs cs = true := by
  simp [plain] at h
  exact ⟨h.1.1, h.1.2, h.2⟩

mutual
theorem adopt_plain : ∀ (n : Node), plain n = true → adopt none n = n
  | .leaf f v, h => by
    have : f = {} := by simpa [plain] using h
    subst this; simp [adopt]
  | .comp f k cs, h => by
    obtain ⟨hf, hk, hcs⟩ := plain_comp h
    subst hf; subst hk
    simp [adopt, childIDel, Node.fl, Node.defaultDel, adoptAll_plain cs hcs]
theorem adoptAll_plain : ∀ (cs : KVs), plainKVs cs = true → adoptAll none cs = cs
  | [], _ => by simp [adoptAll]
  | (k, v) :: r, h => by
    have h' : plain v = true ∧ plainKVs r = true := by simpa [plainKVs] using h
    simp [adoptAll, adopt_plain v h'.1, adoptAll_plain r h'.2]
end

theorem lookup_strip (k : Key) : ∀ cs : KVs, lookupP k (stripKVs cs) = (lookup k cs).map strip
  | [] => by simp [stripKVs, lookupP, lookup]
  | (k', v) :: r => by
    by_cases h : k = k' <;> simp [stripKVs, lookupP, lookup, h, lookup_strip k r]

theorem setKey_strip (k : Key) (v : Node) : ∀ cs : KVs,
    stripKVs (setKey k v cs) = setKeyP k (strip v) (stripKVs cs)
  | [] => by simp [stripKVs, setKeyP, setKey]
  | (k', v') :: r => by
    by_cases h : k = k' <;> simp [stripKVs, setKeyP, setKey, h, setKey_strip k v r]

theorem setKey_plain (k : Key) (v : Node) (hv : plain v = true) : ∀ cs : KVs,
    plainKVs cs = true → plainKVs (setKey k v cs) = true
  | [], _ => by simp [setKey, plainKVs, hv]
  | (k', v') :: r, h => by
    have h' : plain v' = true ∧ plainKVs r = true := by simpa [plainKVs] using h
    by_cases hk : k = k' <;> simp [setKey, plainKVs, hk, hv, h'.1, h'.2, setKey_plain k v hv r h'.2]

theorem lookup_plain (k : Key) : ∀ cs : KVs, plainKVs cs = true → ∀ c, lookup k cs = some c → plain c = true
  | [], _, c, h => by simp [lookup] at h
  | (k', v') :: r, hp, c, h => by
    have h' : plain v' = true ∧ plainKVs r = true := by simpa [plainKVs] using hp
    by_cases hk : k = k'
    · simp [lookup, hk] at h; subst h; exact h'.1
    · simp [lookup, hk] at h; exact lookup_plain k r h'.2 c h

/-- the loop body on plain data, given the recursive result for the child -/
def depthOK (n : Nat) : KVs → Prop
  | [] => True
  | (_, v) :: r => depth v ≤ n ∧ depthOK n r

theorem ePrio_plain {n : Node} (h : plain n = true) : n.ePrio = .std := by
  simp [Node.ePrio, plain_fl h]
theorem eDel_plain {n : Node} (h : plain n = true) : n.eDel = false := by
  cases n with
  | leaf f v => simp [Node.eDel, plain_fl h, Node.defaultDel]
  | comp f k cs =>
    obtain ⟨hf, hk, _⟩ := plain_comp h
    subst hf; subst hk; simp [Node.eDel, Node.fl, Node.defaultDel]
theorem explicitDel_plain {n : Node} (h : plain n = true) : n.explicitDel = false := by
  simp [Node.explicitDel, plain_fl h]

/-- main statement: with enough fuel, merging plain mapping trees is the recursive update -/
theorem mergeF_plain : ∀ (n : Nat) (a b : Node), plain a = true → plain b = true → depth b ≤ n →
    ∃ r same, mergeF n a b = .ok (r, same) ∧ plain r = true ∧ strip r = upd (strip a) (strip b) := by
  intro n
  induction n with
  | zero =>
    intro a b _ _ hd
    cases b <;> simp [depth] at hd
  | succ n ih =>
    intro a b ha hb hd
    cases a with
    | leaf fa va =>
      refine ⟨b, false, ?_, hb, ?_⟩
      · simp [mergeF, leafRule, ePrio_plain ha, ePrio_plain hb, Prio.gt, Prio.toInt]
      · cases b <;> simp [strip, upd]
    | comp fa ka ca =>
      cases b with
      | leaf fb vb =>
        refine ⟨.leaf fb vb, false, ?_, hb, ?_⟩
        · simp [mergeF, leafRule, ePrio_plain ha, ePrio_plain hb, Prio.gt, Prio.toInt]
        · simp [strip, upd]
      | comp fb kb cb =>
        obtain ⟨hfa, hka, hca⟩ := plain_comp ha
        obtain ⟨hfb, hkb, hcb⟩ := plain_comp hb
        subst hfa; subst hka; subst hfb; subst hkb
        -- the key loop
        have loop : ∀ (cb acc : KVs), plainKVs cb = true → plainKVs acc = true → depthOK n cb →
            ∃ acc', cb.foldlM (stepWith (mergeF n) (.comp {} .dict ca) .dict) acc = .ok acc'
              ∧ plainKVs acc' = true ∧ stripKVs acc' = updKVs (stripKVs acc) (stripKVs cb) := by
          intro cb
          induction cb with
          | nil => intro acc _ hacc _; exact ⟨acc, by simp [List.foldlM], hacc, by simp [stripKVs, updKVs]⟩
          | cons hd tl ihl =>
            intro acc hcb hacc hdep
            obtain ⟨k, v⟩ := hd
            have hv : plain v = true ∧ plainKVs tl = true := by simpa [plainKVs] using hcb
            have hdv : depth v ≤ n ∧ depthOK n tl := hdep
            -- one step
            have step1 : ∃ acc1, stepWith (mergeF n) (.comp {} .dict ca) .dict acc (k, v) = .ok acc1
                ∧ plainKVs acc1 = true
                ∧ stripKVs acc1 = (match lookupP k (stripKVs acc) with
                    | none => setKeyP k (strip v) (stripKVs acc)
                    | some old => setKeyP k (upd old (strip v)) (stripKVs acc)) := by
              cases hl : lookup k acc with
              | none =>
                refine ⟨setKey k v acc, ?_, setKey_plain k v hv.1 acc hacc, ?_⟩
                · simp [stepWith, getChild, hl, setChild, childIDel, Node.fl, Node.defaultDel, adopt_plain v hv.1]
                · simp [setKey_strip, lookup_strip, hl]
              | some child =>
                have hchild : plain child = true := lookup_plain k acc hacc child hl
                obtain ⟨r, same, hm, hr, hs⟩ := ih child v hchild hv.1 hdv.1
                have hne : v.explicitDel = false := explicitDel_plain hv.1
                have hre : r.explicitDel = false := explicitDel_plain hr
                have e2 : setChild (.comp {} .dict ca) .dict acc k r = setKey k r acc := by
                  simp [setChild, childIDel, Node.fl, Node.defaultDel, adopt_plain r hr]
                refine ⟨setKey k r acc, ?_, setKey_plain k r hr acc hacc, ?_⟩
                · by_cases hc : child.isComp = true
                  · cases same <;> simp [stepWith, getChild, hl, hm, hc, hne, e2, setKey']
                  · have hsame : same = false := by
                      cases child with
                      | leaf fc vc =>
                        cases n with
                        | zero => simp [mergeF] at hm
                        | succ m =>
                          simp [mergeF, leafRule, ePrio_plain hchild, ePrio_plain hv.1, Prio.gt, Prio.toInt] at hm
                          exact hm.2
                      | comp fc kc cc => exact absurd rfl hc
                    simp [stepWith, getChild, hl, hm, hc, hsame, hre, e2]
                · simp [setKey_strip, lookup_strip, hl, hs]
            obtain ⟨acc1, hk1, hk2, hk3⟩ := step1
            obtain ⟨acc', h1, h2, h3⟩ := ihl acc1 hv.2 hk2 hdv.2
            refine ⟨acc', ?_, h2, ?_⟩
            · simp [List.foldlM, hk1, h1]
            · rw [h3, hk3]
              simp only [stripKVs, updKVs]
              cases lookupP k (stripKVs acc) <;> rfl
        -- depth bookkeeping for the children of b
        have hdep : depthOK n cb := by
          have : depth.depthKVs cb ≤ n := by simp [depth] at hd; omega
          clear hd hb hcb loop
          induction cb with
          | nil => trivial
          | cons hd tl iht =>
            obtain ⟨k, v⟩ := hd
            simp [depth.depthKVs] at this
            exact ⟨by omega, iht (by omega)⟩
        obtain ⟨acc', h1, h2, h3⟩ := loop cb ca hcb hca hdep
        refine ⟨.comp {} .dict acc', true, ?_, ?_, ?_⟩
        · have hbd : (Node.comp {} .dict cb).eDel = false := by simp [Node.eDel, Node.fl, Node.defaultDel]
          simp only [mergeF, hbd]
          simp [h1, finish, Node.ePrio, Node.fl, Prio.ge, Prio.toInt, childIDel, Node.defaultDel,
                adoptAll_plain acc' h2]
        · simp [plain, h2]
        · simp [strip, upd, h3]

#print axioms mergeF_plain
