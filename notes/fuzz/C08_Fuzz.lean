import AY.Model.Construct
import AY.Spec.Plain
import AY.Lemmas.C08List
open AY

abbrev G := StateM Nat

def rnd (n : Nat) : G Nat := do
  let s ← get
  let s' := (s * 6364136223846793005 + 1442695040888963407) % (2^64)
  set s'
  pure ((s' / 2^33) % n)

def chance (num den : Nat) : G Bool := do
  let r ← rnd den
  pure (r < num)

def pick {α} [Inhabited α] (xs : List α) : G α := do
  let i ← rnd xs.length
  pure (xs.getD i default)

def keysA : List String := ["a", "b", "c", "k", "x"]

def sc (i : Int) : Raw := .scalar .none {} (.lit (.int i))

/-- base document; `tags`: sprinkle !force/!weak on nodes -/
partial def genBase (depth : Nat) (tags : Bool) : G Raw := do
  let tagIt : G (TagKind × CtorKw) := do
    if tags then
      let r ← rnd 10
      if r == 0 then pure (.plain, { prio := some 1 })
      else if r == 1 then pure (.plain, { prio := some (-1) })
      else pure (.none, {})
    else pure (.none, {})
  let r ← rnd 10
  if depth == 0 || r < 3 then
    let (t, kw) ← tagIt
    let v ← rnd 5
    pure (.scalar t kw (.lit (.int v)))
  else if r < 6 then
    let n ← rnd 4
    let mut items := []
    for _ in [0:n] do
      items := items ++ [← genBase (depth - 1) tags]
    let (t, kw) ← tagIt
    pure (.seq t kw items)
  else
    let n ← rnd 4
    let mut items : List (Key × Raw) := []
    for _ in [0:n] do
      let k ← pick keysA
      if (alookup (.str k) items).isNone then
        items := items ++ [(.str k, ← genBase (depth - 1) tags)]
    let (t, kw) ← tagIt
    pure (.map t kw items)

/-- base of mappings and scalars only, with !force / !weak sprinkled -/
partial def genBaseM (depth : Nat) : G Raw := do
  let tagIt : G (TagKind × CtorKw) := do
    let r ← rnd 6
    if r == 0 then pure (.plain, { prio := some 1 })
    else if r == 1 then pure (.plain, { prio := some (-1) })
    else pure (.none, {})
  let r ← rnd 10
  let (t, kw) ← tagIt
  if depth == 0 || r < 4 then
    let v ← rnd 3
    pure (.scalar t kw (.lit (.int v)))
  else
    let n ← rnd 4
    let mut items : List (Key × Raw) := []
    for _ in [0:n] do
      let k ← pick keysA
      if (alookup (.str k) items).isNone then
        items := items ++ [(.str k, ← genBaseM (depth - 1))]
    pure (.map t kw items)

def genRootBaseM : G Raw := do
  let n ← rnd 3
  let mut items : List (Key × Raw) := []
  for _ in [0:n+2] do
    let k ← pick keysA
    if (alookup (.str k) items).isNone then
      items := items ++ [(.str k, ← genBaseM 3)]
  pure (.map .none {} items)

def genRootBase (tags : Bool) : G Raw := do
  let n ← rnd 3
  let mut items : List (Key × Raw) := []
  for _ in [0:n+2] do
    let k ← pick keysA
    if (alookup (.str k) items).isNone then
      items := items ++ [(.str k, ← genBase 3 tags)]
  pure (.map .none {} items)

structure Mode where
  prio : Bool := false
  mergeTag : Bool := false
  newTag : Bool := false
  delTag : Bool := false
  alias : Bool := false
  badIdx : Bool := true
  newKeys : Bool := true

def genTag (m : Mode) : G (TagKind × CtorKw) := do
  let r ← rnd 12
  if m.prio && r == 0 then pure (.plain, { prio := some 1 })
  else if m.prio && r == 1 then pure (.plain, { prio := some (-1) })
  else if m.mergeTag && r == 2 then pure (.plain, { del := some false })
  else if m.newTag && (r == 3 || r == 4) then pure (.plain, { new := some true })
  else if m.delTag && (r == 5 || r == 6) then pure (.plain, { del := some true })
  else if m.newTag && r == 7 then pure (.plain, { new := some false })
  else pure (.none, {})

partial def genFresh (m : Mode) (depth : Nat) : G Raw := do
  let r ← rnd 10
  let (t, kw) ← genTag m
  if depth == 0 || r < 5 then
    pure (.scalar t kw (.lit (.int 9)))
  else
    let n ← rnd 3
    let mut items : List (Key × Raw) := []
    for _ in [0:n] do
      let k ← pick ["p", "q", "a"]
      if (alookup (.str k) items).isNone then
        items := items ++ [(.str k, ← genFresh m (depth - 1))]
    pure (.map t kw items)

/-- override for the data `p` -/
partial def genOver (m : Mode) (p : Plain) (depth : Nat) : G Raw := do
  let (t, kw) ← genTag m
  match p with
  | .scalar _ =>
    let r ← rnd 10
    if r < 6 then pure (.scalar t kw (.lit (.int 7)))
    else if r < 8 then pure (.map t kw [])
    else pure (.map t kw [(.str "more", ← genFresh m 1)])
  | .dict items =>
    let r ← rnd 10
    if r == 0 then return (.scalar t kw (.lit (.int 7)))
    let n ← rnd 3
    let mut out : List (Key × Raw) := []
    for _ in [0:n+1] do
      let isNew ← chance 1 5
      if (isNew && m.newKeys) || items.isEmpty then
        let k ← pick ["typo", "zz", "a"]
        if (alookup (.str k) out).isNone && (alookup (.str k) items).isNone then
          out := out ++ [(.str k, ← genFresh m 2)]
      else
        let (k, c) ← pick items
        if (alookup k out).isNone then
          out := out ++ [(k, ← genOver m c (depth - 1))]
    pure (.map t kw out)
  | .list xs =>
    let r ← rnd 10
    if r == 0 then return (.scalar t kw (.lit (.int 7)))
    let n ← rnd 2
    let mut out : List (Key × Raw) := []
    let len := xs.length
    for _ in [0:n+1] do
      let bad ← chance 1 6
      if (bad && m.badIdx) || len == 0 then
        if m.badIdx then
          let k ← pick [Key.int len, Key.int (-(len : Int) - 1), Key.str "x", Key.int (len + 3)]
          if (alookup k out).isNone then
            out := out ++ [(k, ← genFresh m 1)]
      else
        let i ← rnd len
        let neg ← chance 1 2
        let k : Key := if neg then .int ((i : Int) - len) else .int i
        if (alookup k out).isNone then
          let aliasOk ← chance 1 3
          let other : Key := if neg then .int i else .int ((i : Int) - len)
          if (alookup other out).isNone || (m.alias && aliasOk) then
            out := out ++ [(k, ← genOver m (xs.getD i (.scalar .null)) (depth - 1))]
    pure (.map t kw out)

def genRootOver (m : Mode) (p : Plain) : G Raw := do
  match ← genOver m p 4 with
  | .map _ kw items => pure (.map .plain { kw with new := some false } items)
  | r => pure r

/-! ### checks -/

def hasP (a : Plain) (p : Path) : Bool := (c08_getPlainAtL a p).isSome

partial def pathsOf : Plain → List Path
  | .scalar _ => [[]]
  | .dict items => [] :: items.flatMap (fun (k, c) => (pathsOf c).map (k :: ·))
  | .list xs => [] :: (xs.zipIdx.flatMap (fun (c, i) => (pathsOf c).map (Key.int i :: ·)))

partial def preorder (p : Path) : Node → List (Path × Node)
  | .leaf f k => [(p, .leaf f k)]
  | .comp f k cs => (p, .comp f k cs) :: cs.flatMap (fun (key, c) => preorder (p ++ [key]) c)

def nodup (xs : List Nat) : Bool := xs.eraseDups.length == xs.length

partial def noAlias : Plain → Node → Bool
  | .dict items, .comp _ _ ocs =>
    ocs.all fun (k, o) => match alookup k items with | some c => noAlias c o | none => true
  | .list xs, .comp _ _ ocs =>
    nodup (ocs.filterMap (fun (k, _) => listIndex xs.length k)) &&
    ocs.all fun (k, o) => match listIndex xs.length k with
      | some i => noAlias (xs.getD i (.scalar .null)) o
      | none => true
  | _, _ => true

/-- canonical spelling (non-negative list indices) of a path that exists in the data -/
def normPath : Plain → Path → Option Path
  | _, [] => some []
  | .dict items, k :: ks =>
    match alookup k items with
    | none => none
    | some c => (normPath c ks).map (k :: ·)
  | .list xs, k :: ks =>
    match listIndex xs.length k with
    | none => none
    | some i => match xs[i]? with
      | none => none
      | some c => (normPath c ks).map (Key.int i :: ·)
  | .scalar _, _ :: _ => none

/-- a (list, mapping with an invalid key) pair at a common path -/
partial def badPair : Plain → Node → Bool
  | .dict items, .comp _ _ ocs =>
    ocs.any fun (k, o) => match alookup k items with | some c => badPair c o | none => false
  | .list xs, .comp _ _ ocs =>
    ocs.any (fun (k, _) => (listIndex xs.length k).isNone) ||
    ocs.any fun (k, o) => match listIndex xs.length k with
      | some i => badPair (xs.getD i (.scalar .null)) o
      | none => false
  | _, _ => false

structure Feat where
  anyPrio : Bool
  anyDelTrue : Bool
  anyDelFalse : Bool
  anyNewTrue : Bool
  allNN : Bool      -- every node below root eNew false
  anyEDel : Bool    -- some node (incl root) with eDel true

def feat (b : Node) : Feat :=
  let ns := preorder [] b
  { anyPrio := ns.any (fun x => x.2.flags.prio.isSome),
    anyDelTrue := ns.any (fun x => x.2.flags.del == some true),
    anyDelFalse := ns.any (fun x => x.2.flags.del == some false),
    anyNewTrue := ns.any (fun x => x.2.flags.new == some true),
    allNN := (ns.drop 1).all (fun x => !eNew x.2.flags),
    anyEDel := ns.any (fun x => eDel x.2) }

structure Counts where
  total : Nat := 0
  ok : Nat := 0
  errNotnew : Nat := 0
  errMerge : Nat := 0
  errOther : Nat := 0
  listReach : Nat := 0
  negIdx : Nat := 0
  aliasCases : Nat := 0
  viol : Nat := 0
  deriving Repr

def reprPath (p : Path) : String := toString (repr p)

/-- the statements; returns a description of a violation -/
def checkCase (name : String) (a b : Node) (iffDomain : Bool) : Option String :=
  let na := native a
  let na' := noAlias na b
  match merge a b with
  | .ok r =>
    let created := (pathsOf (native r)).filter (fun p => !hasP na p)
    let f := feat b
    if f.allNN && !created.isEmpty then some s!"{name}: success created {reprPath (created.headD [])}"
    else
      -- created paths are at nodes with eNew = true (no alias)
      let w := (preorder [] b).filterMap fun x => if eNew x.2.flags then normPath (native r) x.1 else none
      let badCreated := created.filter fun p => !w.contains p
      if na' && !badCreated.isEmpty then some s!"{name}: created path not at an eNew node {reprPath (badCreated.headD [])}"
      else if iffDomain && na' then
        let missOff := (preorder [] b).filter fun x => !hasP na x.1 && !eNew x.2.flags
        if !missOff.isEmpty then some s!"{name}: iff: success but missing offender {reprPath ((missOff.headD ([], b)).1)}"
        else if badPair na b then some s!"{name}: iff: success but bad pair"
        else if !((preorder [] b).all fun x => hasP (native r) x.1) then some s!"{name}: a written path is not in the result"
        else none
      else none
  | .error (.notnew p) =>
    if !(getNode b p).isSome then some s!"{name}: notnew path {reprPath p} not written by b"
    else if na' && hasP na p then some s!"{name}: notnew path {reprPath p} exists in a"
    else if iffDomain && na' then
      let missOff := (preorder [] b).filter fun x => !hasP na x.1 && !eNew x.2.flags
      if missOff.isEmpty && !badPair na b then some s!"{name}: iff: failed (notnew) but nothing missing"
      else none
    else none
  | .error .merge =>
    if na' && !badPair na b then some s!"{name}: .merge without a bad (list, key) pair"
    else none
  | .error e => some s!"{name}: other error {repr e}"

def runFamily (name : String) (m : Mode) (baseTags : Bool) (iffDom : Bool) (n : Nat) (seed : Nat) : IO Unit := do
  let mut st := seed
  let mut c : Counts := {}
  let mut shown := 0
  for _ in [0:n] do
    let (rb, st1) := (genRootBase baseTags).run st
    let (ro, st2) := (genRootOver m (plainOfRaw rb)).run st1
    st := st2
    match construct {} rb, construct {} ro with
    | .ok a0, .ok b =>
      -- the config built so far: merge of the empty root with the first document is what the pipeline does;
      -- the first stage is taken as is (flatten premerges it and checks reqNew)
      let a := a0
      c := { c with total := c.total + 1 }
      let reach := (preorder [] b).any fun x => x.2.isComp && (match c08_getPlainAtL (native a) x.1 with | some (.list _) => true | _ => false)
      if reach then c := { c with listReach := c.listReach + 1 }
      let neg := (preorder [] b).any fun x => match x.1.getLast? with | some (.int i) => i < 0 | _ => false
      if neg then c := { c with negIdx := c.negIdx + 1 }
      if !noAlias (native a) b then c := { c with aliasCases := c.aliasCases + 1 }
      match merge a b with
      | .ok _ => c := { c with ok := c.ok + 1 }
      | .error (.notnew _) => c := { c with errNotnew := c.errNotnew + 1 }
      | .error .merge => c := { c with errMerge := c.errMerge + 1 }
      | .error _ => c := { c with errOther := c.errOther + 1 }
      match checkCase name a b iffDom with
      | some msg =>
        c := { c with viol := c.viol + 1 }
        if shown < 3 then
          shown := shown + 1
          IO.println msg
          IO.println s!"  base: {repr rb}"
          IO.println s!"  over: {repr ro}"
      | none => pure ()
    | _, _ => pure ()
  IO.println s!"{name}: {repr c}"

/-- (4) deleting nodes inside a !notnew document, base of mappings with protected entries -/
def runDel (n : Nat) (seed : Nat) : IO Unit := do
  let mut st := seed
  let mut total := 0
  let mut okN := 0
  let mut errN := 0
  let mut delReached := 0
  let mut violCreate := 0
  let mut violErrExists := 0
  let mut lvl := 0
  let mut lvlOk := 0
  let mut lvlViol := 0
  let mut shown := 0
  for _ in [0:n] do
    let (rb, st1) := genRootBaseM.run st
    let (ro, st2) := (genRootOver { delTag := true, prio := true, newKeys := true } (plainOfRaw rb)).run st1
    st := st2
    match construct {} rb, construct {} ro with
    | .ok a, .ok b =>
      total := total + 1
      if (preorder [] b).any (fun x => x.2.isComp && eDel x.2 && (getNode a x.1).isSome) then delReached := delReached + 1
      match merge a b with
      | .ok r =>
        okN := okN + 1
        let created := (pathsOf (native r)).filter (fun p => !hasP (native a) p)
        if !created.isEmpty then
          violCreate := violCreate + 1
          if shown < 2 then
            shown := shown + 1
            IO.println s!"DEL: created {reprPath (created.headD [])}\n base {repr rb}\n over {repr ro}"
      | .error (.notnew p) =>
        errN := errN + 1
        if hasP (native a) p then violErrExists := violErrExists + 1
      | .error _ => errN := errN + 1
      -- one level: every (s, o) pair at a common path with o a deleting mapping and s a mapping
      for x in preorder [] b do
        match x.2, getNode a x.1 with
        | .comp of .dict ocs, some (.comp sf .dict scs) =>
          if eDel (.comp of .dict ocs) && ((preorder [] (Node.comp of .dict ocs)).drop 1).all (fun y => !eNew y.2.flags) then
            lvl := lvl + 1
            match mergeF ((Node.comp of .dict ocs).depth + 1) (.comp sf .dict scs) (.comp of .dict ocs) with
            | .ok (r, _) =>
              lvlOk := lvlOk + 1
              let ks : List Key := scs.map (fun kv => kv.1)
              if !(ocs.all (fun (kv : Key × Node) => ks.contains kv.1)) || !(r.children.all (fun (kv : Key × Node) => ks.contains kv.1)) then
                lvlViol := lvlViol + 1
            | .error _ => pure ()
        | _, _ => pure ()
    | _, _ => pure ()
  IO.println s!"T4-del: total {total} ok {okN} err {errN} delReached {delReached} whole-tree: created-path violations {violCreate}, notnew naming an existing path (D39) {violErrExists}; one level: pairs {lvl} ok {lvlOk} violations {lvlViol}"

def main (args : List String) : IO Unit := do
  let seed := (args.headD "1").toNat!
  let n := ((args.drop 1).headD "3000").toNat!
  -- (1) no flags in b, plain base
  runFamily "T1-plain" {} false true n seed
  runFamily "T1-plain-alias" { alias := true } false true n (seed + 1)
  -- (1') tagged base (priorities in a)
  runFamily "T1-taggedbase" { alias := true } true false n (seed + 2)
  -- (2) priorities and !merge in b
  runFamily "T2-prio" { prio := true, mergeTag := true, alias := true } false false n (seed + 3)
  runFamily "T2-prio-taggedbase" { prio := true, mergeTag := true, alias := true } true false n (seed + 4)
  -- (3) nested !new
  runFamily "T3-new" { newTag := true } false true n (seed + 5)
  runFamily "T3-new-alias" { newTag := true, alias := true } false true n (seed + 6)
  runDel n (seed + 8)
  runFamily "T3-new-prio" { newTag := true, prio := true, mergeTag := true } true false n (seed + 7)
