import AY.Lemmas.C16PipeFinal
open AY AY.C04P AY.C16P

/-!
  Fuzzer for the statements of AY/Props/C16_Pipeline.lean on the executable model.
  run:  cd lean && lake env lean --run ../notes/fuzz/C16_Pipeline_Fuzz.lean <seed> <n>
-/

abbrev G := StateM Nat

def rnd (n : Nat) : G Nat := do
  let s ← get
  let s' := (s * 6364136223846793005 + 1442695040888963407) % (2^64)
  set s'
  pure ((s' / 2^33) % n)

def pick {α} [Inhabited α] (xs : List α) : G α := do
  let i ← rnd xs.length
  pure (xs.getD i default)

def keysA : List String := ["a", "b", "c", "d"]

def genTag (rich : Bool) : G (TagKind × CtorKw) := do
  let r ← rnd (if rich then 10 else 30)
  match r with
  | 0 => pure (.plain, { del := some true })
  | 1 => pure (.plain, { del := some false })
  | 2 => pure (.plain, { prio := some 1 })
  | 3 => pure (.plain, { prio := some (-1) })
  | 4 => pure (.plain, { new := some false })
  | 5 => pure (.plain, { safe := some false })
  | _ => pure (.none, {})

partial def genRaw (rich : Bool) (depth : Nat) : G Raw := do
  let (t, kw) ← genTag rich
  let r ← rnd 10
  if depth == 0 || r < 3 then
    let v ← rnd 6
    if v == 0 then pure (.scalar t kw .empty)
    else if v == 1 then pure (.scalar t kw (.lit (.int 0)))
    else pure (.scalar t kw (.lit (.int v)))
  else if r < 6 then
    let n ← rnd 4
    let mut items := []
    for _ in [0:n] do
      items := items ++ [← genRaw rich (depth - 1)]
    pure (.seq t kw items)
  else
    let n ← rnd 4
    let mut items : List (Key × Raw) := []
    for _ in [0:n] do
      let k ← pick keysA
      if (alookup (.str k) items).isNone then
        items := items ++ [(.str k, ← genRaw rich (depth - 1))]
    pure (.map t kw items)

def genRoot (rich : Bool) : G Raw := do
  let n ← rnd 3
  let mut items : List (Key × Raw) := []
  for _ in [0:n+2] do
    let k ← pick keysA
    if (alookup (.str k) items).isNone then
      items := items ++ [(.str k, ← genRaw rich 4)]
  pure (.map .none {} items)

/-- a later stage derived from an earlier document: mostly the same spine, random replacements -/
partial def derive (rich : Bool) (depth : Nat) : Raw → G Raw
  | .map _ _ items => do
    let mut out : List (Key × Raw) := []
    for (k, v) in items do
      let r ← rnd 6
      if r < 3 then out := out ++ [(k, ← derive rich (depth - 1) v)]
      else if r == 3 then out := out ++ [(k, ← genRaw rich (min depth 2))]
      else pure ()
    let r ← rnd 3
    if r == 0 then
      let k ← pick keysA
      if (alookup (.str k) out).isNone then out := out ++ [(.str k, ← genRaw rich (min depth 2))]
    let (t, kw) ← genTag (rich && depth < 3)
    pure (.map t kw out)
  | .seq _ _ items => do
    let mut out : List Raw := []
    for v in items do
      let r ← rnd 6
      if r < 3 then out := out ++ [← derive rich (depth - 1) v]
      else if r == 3 then out := out ++ [← genRaw rich 1]
      else pure ()
    let (t, kw) ← genTag rich
    pure (.seq t kw out)
  | .scalar _ _ _ => do
    let r ← rnd 3
    if r == 0 then genRaw rich 2 else genRaw rich 0

def deriveRoot (rich : Bool) (r : Raw) : G Raw := do
  match ← derive rich 4 r with
  | .map _ _ items => pure (.map .none {} items)
  | other => pure other

mutual
partial def peq : Plain → Plain → Bool
  | .scalar a, .scalar b => a == b
  | .list a, .list b => peqL a b
  | .dict a, .dict b => peqD a b
  | _, _ => false
partial def peqL : List Plain → List Plain → Bool
  | [], [] => true
  | a :: as, b :: bs => peq a b && peqL as bs
  | _, _ => false
partial def peqD : List (Key × Plain) → List (Key × Plain) → Bool
  | [], [] => true
  | (k, a) :: as, (k', b) :: bs => k == k' && peq a b && peqD as bs
  | _, _ => false
end

def opeq : Option Plain → Option Plain → Bool
  | none, none => true
  | some a, some b => peq a b
  | _, _ => false

partial def preorder (pre : Path) : Node → List (Path × Node)
  | .leaf f k => [(pre, .leaf f k)]
  | .comp f k cs => (pre, .comp f k cs) :: (cs.map (fun kv => preorder (pre ++ [kv.1]) kv.2)).flatten

/-- operators of a stage the pre-merge pass reaches (below mappings only) -/
partial def opsOf (pre : Path) : Node → List (Path × Node)
  | .leaf f (.prev p) => [(pre, .leaf f (.prev p))]
  | .leaf .. => []
  | .comp f .append cs => [(pre, .comp f .append cs)]
  | .comp f .extend cs => [(pre, .comp f .extend cs)]
  | .comp _ _ cs => (cs.map (fun kv => opsOf (pre ++ [kv.1]) kv.2)).flatten

/-- insert `v` at `p` into a list of mapping items, creating plain mappings on the way -/
partial def insertAt (rich : Bool) (items : List (Key × Raw)) : Path → Raw → G (List (Key × Raw))
  | [], _ => pure items
  | [k], v => pure (aset k v items)
  | k :: rest, v => do
    let (t, kw) ← genTag (rich)
    let sub : List (Key × Raw) := match alookup k items with
      | some (.map _ _ its) => its
      | _ => []
    let (t0, kw0) := match alookup k items with
      | some (.map t0 kw0 _) => (t0, kw0)
      | _ => (t, kw)
    let sub' ← insertAt rich sub rest v
    pure (aset k (.map t0 kw0 sub') items)

def strPath (p : Path) : Bool := p.all (fun k => match k with | .str _ => true | _ => false)

def isListNode : Node → Bool
  | .comp _ k _ => k.isListFam
  | _ => false

/-- choose the own path of an operator: existing list / existing other / missing below existing / fresh -/
def genOpPath (s : Node) (wantList : Bool) : G Path := do
  let all := (preorder [] s).filter (fun pn => pn.1 != [] && strPath pn.1 && pn.1.length ≤ 3)
  let lists := all.filter (fun pn => isListNode pn.2)
  let r ← rnd 10
  if wantList && !lists.isEmpty && r < 7 then
    pure (← pick lists).1
  else if !all.isEmpty && r < 8 then
    pure (← pick all).1
  else if !all.isEmpty && r < 9 then
    let base := (← pick all).1
    pure ((base.take 2) ++ [.str (← pick ["n", "m"])])
  else
    let k1 ← pick ["n", "m", "a"]
    let d ← rnd 3
    pure ((List.replicate d (Key.str "n")) ++ [.str k1])

def genElems (rich : Bool) : G (List Raw) := do
  let n ← rnd 3
  let mut items := []
  for _ in [0:n] do
    items := items ++ [← genRaw rich 1]
  pure items

/-- one operator for the last stage: (own path, raw node) -/
def genOp (rich : Bool) (s : Node) : G (Path × Raw) := do
  let r ← rnd 10
  let (t, kw) ← genTag rich
  if r < 3 then
    pure (← genOpPath s true, .seq .append kw (← genElems rich))
  else if r < 6 then
    pure (← genOpPath s true, .seq .extend kw (← genElems rich))
  else
    let all := (preorder [] s).filter (fun pn => pn.1 != [])
    let x ← rnd 10
    let tp : Path ← (if !all.isEmpty && x < 9 then do pure (← pick all).1 else pure [.str "missing", .str "x"])
    let y ← rnd 10
    let q : Path ← (if y < 5 then do
        let d ← rnd 3
        pure ((List.replicate d (Key.str "n")) ++ [.str (← pick ["q", "r"])])
      else genOpPath s false)
    let _ := t
    pure (q, .scalar .prev {} (.text (joinPath tp)))


def kwStr (t : TagKind) (kw : CtorKw) : String :=
  let tg := match t with
    | .none => "" | .plain => "" | .append => "!append" | .extend => "!extend" | .prev => "!prev" | _ => "!?"
  let a := (match kw.prio with | some 1 => "!force" | some (-1) => "!weak" | some _ => "!prio?" | none => "")
  let b := (match kw.del with | some true => "!del" | some false => "!merge" | none => "")
  let c := (match kw.new with | some false => "!notnew" | some true => "!new" | none => "")
  let d := (match kw.safe with | some false => "!unsafe" | some true => "!safe" | none => "")
  let all := [tg, a, b, c, d].filter (· != "")
  if all.isEmpty then "" else String.intercalate "" all ++ " "

def keyStr : Key → String
  | .str s => s
  | .int i => toString i
  | .float r => r

partial def rawStr : Raw → String
  | .scalar t kw v => kwStr t kw ++ (match v with | .empty => "~" | .lit (.int i) => toString i | .lit _ => "?" | .text s => "\"" ++ s ++ "\"")
  | .seq t kw items => kwStr t kw ++ "[" ++ String.intercalate ", " (items.map rawStr) ++ "]"
  | .map t kw items => kwStr t kw ++ "{" ++ String.intercalate ", " (items.map (fun kv => keyStr kv.1 ++ ": " ++ rawStr kv.2)) ++ "}"

partial def plainStr : Plain → String
  | .scalar (.int i) => toString i
  | .scalar .null => "~"
  | .scalar _ => "?"
  | .list xs => "[" ++ String.intercalate ", " (xs.map plainStr) ++ "]"
  | .dict kvs => "{" ++ String.intercalate ", " (kvs.map (fun kv => keyStr kv.1 ++ ": " ++ plainStr kv.2)) ++ "}"

def resStr : Except Err Node → String
  | .ok r => plainStr (native r)
  | .error e => "ERROR " ++ toString (repr e)

structure Cnt where
  cases : Nat := 0
  chainOk : Nat := 0
  chainFail : Nat := 0
  chainE : Nat := 0
  chainEFail : Nat := 0
  chainP : Nat := 0
  chainPFail : Nat := 0
  p5frame : Nat := 0
  m2 : Nat := 0
  m2bad : Nat := 0
  m3 : Nat := 0
  m3bad : Nat := 0
  m4 : Nat := 0
  m4bad : Nat := 0
  p5frameBad : Nat := 0
  prefixOk : Nat := 0
  noOps : Nat := 0
  -- (1) append
  a1 : Nat := 0          -- domain of C16_append_at_path
  a1deep : Nat := 0      -- ... with |path| ≥ 2
  a1stages : Nat := 0    -- ... with ≥ 3 stages in total
  a1fail : Nat := 0      -- build failed inside the domain
  a1failPremerge : Nat := 0
  a1bad : Nat := 0
  a1frame : Nat := 0
  a1frameBad : Nat := 0
  a1err : Nat := 0       -- missing / non-list target
  a1errBad : Nat := 0
  -- (2) extend
  e1 : Nat := 0
  e1deep : Nat := 0
  e1fail : Nat := 0
  e1bad : Nat := 0
  e1frame : Nat := 0
  e1frameBad : Nat := 0
  e2 : Nat := 0          -- fallback, nothing at the path
  e2bad : Nat := 0
  e3 : Nat := 0          -- fallback, non-list at the path, replaces wholesale
  e3bad : Nat := 0
  e3out : Nat := 0       -- fallback, non-list, outranked / protected (general form checked)
  e3outBad : Nat := 0
  ePremerge : Nat := 0   -- an `!extend` stage that ends in a PremergeError (must be 0)
  -- (3) prev
  p1 : Nat := 0          -- q new
  p1deep : Nat := 0
  p1fail : Nat := 0
  p1bad : Nat := 0
  p2 : Nat := 0          -- q existed: merge
  p2bad : Nat := 0
  p3 : Nat := 0          -- removed from tp
  p3bad : Nat := 0
  p4 : Nat := 0          -- frame
  p4bad : Nat := 0
  p5 : Nat := 0          -- list parent
  p5bad : Nat := 0
  p6 : Nat := 0          -- errors: target missing
  p6bad : Nat := 0
  -- (4) multi
  m1 : Nat := 0          -- stages with ≥ 2 operators in opsStage, build ok
  m1paths : Nat := 0
  m1bad : Nat := 0
  m1fail : Nat := 0
  deriving Repr

def reprPath (p : Path) : String := toString (repr p)

def errKind : Err → String
  | .premerge => "premerge"
  | .merge => "merge"
  | .notnew _ => "notnew"
  | .unsupported => "unsupported"
  | _ => "other"

def stepRemovesB' (c v nw : Node) (same : Bool) : Bool :=
  if c.isComp then !nw.truthy && !hasPrio nw.flags v.flags false && v.flags.del == some true
  else !same && !nw.truthy && nw.flags.del == some true

/-- candidate paths for the frame clause -/
def framePaths (s r : Node) : List Path :=
  ((preorder [] s).map (·.1) ++ (preorder [] r).map (·.1)).eraseDups

def main (args : List String) : IO Unit := do
  let seed := (args.headD "1").toNat!
  let n := ((args.drop 1).headD "2000").toNat!
  let rich := ((args.drop 2).headD "1") == "1"
  let mut st := seed * 7919 + 13
  let mut c : Cnt := {}
  let mut shown := 0
  for _i in [0:n] do
    let (k, st1) := (rnd 3).run st
    st := st1
    let nst := k + 1          -- 1..3 earlier stages
    let mut raws : List Raw := []
    for j in [0:nst] do
      let (x, st3) := (rnd 3).run st
      st := st3
      let (r, st2) := (if j == 0 || x == 0 then genRoot rich else deriveRoot rich (raws.getD (j-1) default)).run st
      st := st2
      raws := raws ++ [r]
    c := { c with cases := c.cases + 1 }
    match raws.mapM (fun r => construct {} r) with
    | .error _ => pure ()
    | .ok xs =>
    match flatten xs with
    | .error _ => pure ()
    | .ok s =>
      c := { c with prefixOk := c.prefixOk + 1 }
      -- the last stage
      let (mode, st4) := (rnd 10).run st
      st := st4
      let nops := if mode < 6 then 1 else if mode < 9 then 2 else 3
      let (skel, st5) := (deriveRoot rich (raws.getLast!)).run st
      st := st5
      let (useSkel, st6) := (rnd 3).run st
      st := st6
      let mut items : List (Key × Raw) := match skel with
        | .map _ _ its => if useSkel == 0 then [] else its
        | _ => []
      for _ in [0:nops] do
        let ((p, v), st7) := (genOp rich s).run st
        st := st7
        let (its, st8) := (insertAt rich items p v).run st
        st := st8
        items := its
      let rawO : Raw := .map .none {} items
      match construct {} rawO with
      | .error _ => pure ()
      | .ok o =>
        let ops := opsOf [] o
        if ops.isEmpty then c := { c with noOps := c.noOps + 1 }
        let res := flatten (xs ++ [o])
        let bad0 := c.a1bad + c.a1frameBad + c.a1errBad + c.e1bad + c.e1frameBad + c.e2bad + c.e3bad + c.e3outBad +
          c.ePremerge + c.p1bad + c.p2bad + c.p3bad + c.p4bad + c.p5bad + c.p6bad + c.m1bad + c.chainFail + c.chainEFail + c.chainPFail + c.p5frameBad + c.m2bad + c.m3bad + c.m4bad
        -- single operator
        match ops with
        | [(path, op)] =>
          if path != [] && soleAt path o && liveAlong path o then
            let pf := match getNode o path.dropLast with
              | some n => n.flags
              | none => {}
            match op with
            | .comp f .append cs =>
              match getNode s path with
              | some (.comp _tf tk tcs) =>
                if tk.isListFam then
                  if dictAlong path s then
                    c := { c with a1 := c.a1 + 1 }
                    if path.length ≥ 2 then c := { c with a1deep := c.a1deep + 1 }
                    if xs.length ≥ 2 then c := { c with a1stages := c.a1stages + 1 }
                    if chainAt path o && (reqNew [] [] (adopt pf .dict (.comp _tf tk (extendList _tf tk tcs (cs.map (·.2)))))).isNone then
                      match res with
                      | .ok _ => c := { c with chainOk := c.chainOk + 1 }
                      | .error e =>
                        c := { c with chainFail := c.chainFail + 1 }
                        IO.println s!"CHAINFAIL {errKind e} rawO={rawStr rawO} raws={raws.map rawStr}"
                    match res with
                    | .error e =>
                      c := { c with a1fail := c.a1fail + 1 }
                      IO.println s!"A1FAIL {errKind e} path={reprPath path} rawO={rawStr rawO} raws={raws.map rawStr}"
                      if e == .premerge then c := { c with a1failPremerge := c.a1failPremerge + 1 }
                    | .ok r =>
                      let expected := Plain.list (nativeVals tcs ++ cs.map (fun kv => native kv.2))
                      if !opeq ((native r).at? path) (some expected) then
                        c := { c with a1bad := c.a1bad + 1 }
                        IO.println s!"A1 BAD path={reprPath path}\n got={repr ((native r).at? path)}\n exp={repr expected}"
                      for t in framePaths s r do
                        if divergesLive t o && dictAlong t s then
                          c := { c with a1frame := c.a1frame + 1 }
                          if !opeq ((native r).at? t) ((native s).at? t) then
                            c := { c with a1frameBad := c.a1frameBad + 1 }
                            IO.println s!"A1 FRAME BAD t={reprPath t} path={reprPath path}"
                  else pure ()
                else
                  c := { c with a1err := c.a1err + 1 }
                  if !(match res with | .error .premerge => true | _ => false) then
                    c := { c with a1errBad := c.a1errBad + 1 }
                    IO.println s!"A1 ERR BAD (non-list comp) path={reprPath path}"
              | _ =>
                c := { c with a1err := c.a1err + 1 }
                if !(match res with | .error .premerge => true | _ => false) then
                  c := { c with a1errBad := c.a1errBad + 1 }
                  IO.println s!"A1 ERR BAD path={reprPath path} res={repr (res.map native)}"
              let _ := f
            | .comp f .extend cs =>
              if (match res with | .error .premerge => true | _ => false) then
                c := { c with ePremerge := c.ePremerge + 1 }
                IO.println s!"EXTEND PREMERGE path={reprPath path}"
              let vals := cs.map (·.2)
              let d' := adopt pf .dict (newPlainList f vals)
              let isL := match getNode s path with
                | some (.comp _ tk _) => tk.isListFam
                | _ => false
              if isL then
                match getNode s path with
                | some (.comp _tf2 tk2 tcs) =>
                  if dictAlong path s then
                    c := { c with e1 := c.e1 + 1 }
                    if chainAt path o && (reqNew [] [] (adopt (parentFlags path o) .dict (.comp _tf2 tk2 (extendList _tf2 tk2 tcs (cs.map (·.2)))))).isNone then
                      c := { c with chainE := c.chainE + 1 }
                      if !res.toBool then
                        c := { c with chainEFail := c.chainEFail + 1 }
                        IO.println s!"CHAIN-E FAIL rawO={rawStr rawO}"
                    if path.length ≥ 2 then c := { c with e1deep := c.e1deep + 1 }
                    match res with
                    | .error _ => c := { c with e1fail := c.e1fail + 1 }
                    | .ok r =>
                      let expected := Plain.list (nativeVals tcs ++ cs.map (fun kv => native kv.2))
                      if !opeq ((native r).at? path) (some expected) then
                        c := { c with e1bad := c.e1bad + 1 }
                        IO.println s!"E1 BAD path={reprPath path}"
                      for t in framePaths s r do
                        if divergesLive t o && dictAlong t s then
                          c := { c with e1frame := c.e1frame + 1 }
                          if !opeq ((native r).at? t) ((native s).at? t) then
                            c := { c with e1frameBad := c.e1frameBad + 1 }
                            IO.println s!"E1 FRAME BAD t={reprPath t} path={reprPath path}"
                | _ => pure ()
              else if dictAlong path s then
                match res with
                | .error _ => pure ()
                | .ok r =>
                  let lst := Plain.list (vals.map native)
                  match getNode s path with
                  | none =>
                    c := { c with e2 := c.e2 + 1 }
                    if !opeq ((native r).at? path) (some lst) then
                      c := { c with e2bad := c.e2bad + 1 }
                      IO.println s!"E2 BAD path={reprPath path} got={repr ((native r).at? path)}"
                  | some e =>
                    if plainKind e && eDel d' && hasPrio d'.flags e.flags true && noneProtected d' e then
                      c := { c with e3 := c.e3 + 1 }
                      if !opeq ((native r).at? path) (some lst) then
                        c := { c with e3bad := c.e3bad + 1 }
                        IO.println s!"E3 BAD path={reprPath path} got={repr ((native r).at? path)}"
                    else
                      -- general form: one iteration of the key loop on (e, d')
                      c := { c with e3out := c.e3out + 1 }
                      match mergeF (d'.depth + 1) e d' with
                      | .error _ =>
                        c := { c with e3outBad := c.e3outBad + 1 }
                        IO.println s!"E3out BAD (merge error but build ok) path={reprPath path}"
                      | .ok (nw, same) =>
                        let expected := if stepRemovesB' e d' nw same then none else some (native nw)
                        if !opeq ((native r).at? path) expected then
                          c := { c with e3outBad := c.e3outBad + 1 }
                          IO.println s!"E3out BAD path={reprPath path}"
                  -- frame in the fallback case
                  for t in framePaths s r do
                    if divergesLive t o && dictAlong t s then
                      c := { c with e1frame := c.e1frame + 1 }
                      if !opeq ((native r).at? t) ((native s).at? t) then
                        c := { c with e1frameBad := c.e1frameBad + 1 }
                        IO.println s!"E FRAME BAD (fallback) t={reprPath t} path={reprPath path}"
            | .leaf _ (.prev ps) =>
              match splitPath ps with
              | none => pure ()
              | some tp =>
                match getNode s tp with
                | none =>
                  c := { c with p6 := c.p6 + 1 }
                  if !(match res with | .error .premerge => true | _ => false) then
                    c := { c with p6bad := c.p6bad + 1 }
                    IO.println s!"P6 BAD tp={reprPath tp}"
                | some d =>
                  if tp != [] then
                  let pp := tp.dropLast
                  let parentDict := match getNode s pp with
                    | some (.comp _ .dict _) => true
                    | _ => false
                  match removeNode s tp with
                  | none => pure ()
                  | some (_, s') =>
                  if parentDict && dictAlong tp s then
                    if chainAt path o && dictAlong path s && newLeafAt path (eraseAt tp s) &&
                        (reqNew [] [] (adopt (parentFlags path o) .dict d)).isNone then
                      c := { c with chainP := c.chainP + 1 }
                      if !res.toBool then
                        c := { c with chainPFail := c.chainPFail + 1 }
                        IO.println s!"CHAIN-P FAIL rawO={rawStr rawO}"
                    match res with
                    | .error e =>
                      c := { c with p1fail := c.p1fail + 1 }
                      if e == .premerge then IO.println s!"P1 premerge failure tp={reprPath tp}"
                    | .ok r =>
                      let d' := adopt pf .dict d
                      if dictAlong path s' then
                        match getNode s' path with
                        | none =>
                          c := { c with p1 := c.p1 + 1 }
                          if path.length ≥ 2 then c := { c with p1deep := c.p1deep + 1 }
                          if !opeq ((native r).at? path) (some (native d)) then
                            c := { c with p1bad := c.p1bad + 1 }
                            IO.println s!"P1 BAD q={reprPath path} tp={reprPath tp}"
                        | some e =>
                          c := { c with p2 := c.p2 + 1 }
                          match mergeF (d'.depth + 1) e d' with
                          | .error _ =>
                            c := { c with p2bad := c.p2bad + 1 }
                            IO.println s!"P2 BAD (merge error but build ok)"
                          | .ok (nw, same) =>
                            let expected := if stepRemovesB' e d' nw same then none else some (native nw)
                            if !opeq ((native r).at? path) expected then
                              c := { c with p2bad := c.p2bad + 1 }
                              IO.println s!"P2 BAD q={reprPath path} tp={reprPath tp}"
                      if divergesLive tp o then
                        c := { c with p3 := c.p3 + 1 }
                        if !opeq ((native r).at? tp) none then
                          c := { c with p3bad := c.p3bad + 1 }
                          IO.println s!"P3 BAD q={reprPath path} tp={reprPath tp}"
                      for t in framePaths s r do
                        if divergesLive t o && dictAlong t s && indep t tp then
                          c := { c with p4 := c.p4 + 1 }
                          if !opeq ((native r).at? t) ((native s).at? t) then
                            c := { c with p4bad := c.p4bad + 1 }
                            IO.println s!"P4 BAD t={reprPath t} q={reprPath path} tp={reprPath tp}"
                  else
                    -- list parent
                    match getNode s pp, tp.getLast? with
                    | some (.comp _ pk pcs), some key =>
                      if pk.isListFam && dictAlong pp s && divergesLive pp o && listKeys 0 pcs then
                        match res, validateIndex pcs.length true key with
                        | .ok r, some i =>
                          c := { c with p5 := c.p5 + 1 }
                          if !opeq ((native r).at? pp) (some (.list ((nativeVals pcs).eraseIdx i))) then
                            c := { c with p5bad := c.p5bad + 1 }
                            IO.println s!"P5 BAD pp={reprPath pp}"
                          for t in framePaths s r do
                            if divergesLive t o && dictAlong t s && indep t pp then
                              c := { c with p5frame := c.p5frame + 1 }
                              if !opeq ((native r).at? t) ((native s).at? t) then
                                c := { c with p5frameBad := c.p5frameBad + 1 }
                                IO.println s!"P5 FRAME BAD t={reprPath t} pp={reprPath pp}"
                        | _, _ => pure ()
                    | _, _ => pure ()
            | _ => pure ()
        | _ => pure ()
        -- any number of operators: the frame
        if ops.length ≥ 2 && opsStage o then
          let tch := touched [] o
          if allDictAlong s tch then
            match res with
            | .error _ => c := { c with m1fail := c.m1fail + 1 }
            | .ok r =>
              c := { c with m1 := c.m1 + 1 }
              -- the operators themselves, among other operators
              for (x, op) in ops do
                match op with
                | .comp _ ck cs =>
                  let others := tch.erase x
                  if (ck == .append || ck == .extend) && allIndep x others then
                    match getNode s x with
                    | some (.comp _ tk tcs) =>
                      if tk.isListFam then
                        c := { c with m2 := c.m2 + 1 }
                        let expected := Plain.list (nativeVals tcs ++ cs.map (fun kv => native kv.2))
                        if !opeq ((native r).at? x) (some expected) then
                          c := { c with m2bad := c.m2bad + 1 }
                          IO.println s!"M2 BAD x={reprPath x}"
                    | none =>
                      if ck == .extend then
                        c := { c with m4 := c.m4 + 1 }
                        if !opeq ((native r).at? x) (some (Plain.list (cs.map (fun kv => native kv.2)))) then
                          c := { c with m4bad := c.m4bad + 1 }
                          IO.println s!"M4 BAD x={reprPath x}"
                    | _ => pure ()
                | .leaf _ (.prev ps) =>
                  match splitPath ps with
                  | some tp =>
                    let others := tch.erase tp
                    match getNode s tp with
                    | some d =>
                      if allIndep tp others && allIndep x others && dictAlong x s &&
                          ((getNode s x).isNone || tp.isPrefixOf x) then
                        c := { c with m3 := c.m3 + 1 }
                        if !opeq ((native r).at? x) (some (native d)) then
                          c := { c with m3bad := c.m3bad + 1 }
                          IO.println s!"M3 BAD q={reprPath x} tp={reprPath tp}"
                    | none => pure ()
                  | none => pure ()
                | _ => pure ()
              for t in framePaths s r do
                if divergesLive t o && dictAlong t s && allIndep t tch then
                  c := { c with m1paths := c.m1paths + 1 }
                  if !opeq ((native r).at? t) ((native s).at? t) then
                    c := { c with m1bad := c.m1bad + 1 }
                    IO.println s!"M1 BAD t={reprPath t} touched={repr tch}"
        let bad1 := c.a1bad + c.a1frameBad + c.a1errBad + c.e1bad + c.e1frameBad + c.e2bad + c.e3bad + c.e3outBad +
          c.ePremerge + c.p1bad + c.p2bad + c.p3bad + c.p4bad + c.p5bad + c.p6bad + c.m1bad + c.chainFail + c.chainEFail + c.chainPFail + c.p5frameBad + c.m2bad + c.m3bad + c.m4bad
        if bad1 > bad0 then
          shown := shown + 1
          if shown ≤ 5 then
            IO.println s!"  raws={raws.map rawStr}\n  rawO={rawStr rawO}\n  s={plainStr (native s)}\n  res={resStr res}"
  IO.println s!"{repr c}"
