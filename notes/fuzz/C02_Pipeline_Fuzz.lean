import AY.Props.C02
import AY.Lemmas.C05Deep
open AY

namespace AY.C02P
def skips : Path → Plain → Bool
  | [], _ => false
  | k :: q, .dict kvs => (match alookup k kvs with | none => true | some c => skips q c)
  | _ :: _, _ => false

def keeps : Path → Plain → Bool
  | [], _ => true
  | k :: q, .dict kvs => (match alookup k kvs with | none => true | some c => keeps q c)
  | _ :: _, _ => false

def noListAbove : Path → Plain → Bool
  | [], _ => true
  | k :: q, .dict kvs => (match alookup k kvs with | none => true | some c => noListAbove q c)
  | _ :: _, .list _ => false
  | _ :: _, .scalar _ => true
end AY.C02P
open AY.C02P

abbrev G := StateM Nat

def rnd (n : Nat) : G Nat := do
  let s ← get
  let s' := (s * 6364136223846793005 + 1442695040888963407) % (2^64)
  set s'
  pure ((s' / 2^33) % n)

def pick {α} [Inhabited α] (xs : List α) : G α := do
  let i ← rnd xs.length
  pure (xs.getD i default)

def keysA : List Key := [.str "a", .str "b", .str "c", .int 0, .int 1, .int (-1), .int 2]

partial def genRaw (depth : Nat) : G Raw := do
  let r ← rnd 10
  if depth == 0 || r < 3 then
    let v ← rnd 4
    if v == 0 then pure (.scalar .none {} .empty)
    else pure (.scalar .none {} (.lit (.int v)))
  else if r < 5 then
    let n ← rnd 4
    let mut items := []
    for _ in [0:n] do
      items := items ++ [← genRaw (depth - 1)]
    pure (.seq .none {} items)
  else
    let n ← rnd 4
    let mut items : List (Key × Raw) := []
    for _ in [0:n] do
      let k ← pick keysA
      if (alookup k items).isNone then
        items := items ++ [(k, ← genRaw (depth - 1))]
    pure (.map .none {} items)

def genRoot : G Raw := do
  let n ← rnd 3
  let mut items : List (Key × Raw) := []
  for _ in [0:n+2] do
    let k ← pick keysA
    if (alookup k items).isNone then
      items := items ++ [(k, ← genRaw 3)]
  pure (.map .none {} items)

partial def derive (depth : Nat) : Raw → G Raw
  | .map _ _ items => do
    let mut out : List (Key × Raw) := []
    for (k, v) in items do
      let r ← rnd 6
      if r < 3 then out := out ++ [(k, ← derive (depth - 1) v)]
      else if r == 3 then out := out ++ [(k, ← genRaw (min depth 2))]
      else pure ()
    let r ← rnd 3
    if r == 0 then
      let k ← pick keysA
      if (alookup k out).isNone then out := out ++ [(k, ← genRaw (min depth 2))]
    pure (.map .none {} out)
  | .seq _ _ items => do
    -- a list is addressed by a mapping of indices, replaced, or kept
    let r ← rnd 3
    if r == 0 then
      let mut out : List (Key × Raw) := []
      let n ← rnd 3
      for _ in [0:n] do
        let i ← rnd (items.length + 1)
        let neg ← rnd 3
        let k : Key := if neg == 0 then .int (-(i : Int) - 1) else .int i
        if (alookup k out).isNone then out := out ++ [(k, ← genRaw 1)]
      pure (.map .none {} out)
    else genRaw 2
  | .scalar _ _ _ => do
    let r ← rnd 3
    if r == 0 then genRaw 2 else genRaw 0

mutual
partial def peq : Plain → Plain → Bool
  | .scalar a, .scalar b => a == b
  | .list a, .list b => peqL a b
  | .dict a, .dict b => peqD a b
  | _, _ => false
partial def peqL : List Plain → List Plain → Bool
  | [], [] => true
  | a :: as, b :: bs => peq a b && peqL as bs
  | _, _ => false
partial def peqD : List (Key × Plain) → List (Key × Plain) → Bool
  | [], [] => true
  | (k, a) :: as, (k', b) :: bs => k == k' && peq a b && peqD as bs
  | _, _ => false
end

def opeq : Option Plain → Option Plain → Bool
  | none, none => true
  | some a, some b => peq a b
  | _, _ => false

/-- all key paths through mappings, with the value -/
partial def paths (pre : Path) : Plain → List (Path × Plain)
  | .dict kvs => (pre, .dict kvs) :: (kvs.map (fun kv => paths (pre ++ [kv.1]) kv.2)).flatten
  | v => [(pre, v)]

def isDictP : Plain → Bool
  | .dict _ => true
  | _ => false

structure Cnt where
  runs : Nat := 0
  ok : Nat := 0
  err : Nat := 0
  tie : Nat := 0           -- flatten vs foldUpd compared
  tieBad : Nat := 0
  frame : Nat := 0
  frameBad : Nat := 0
  lw : Nat := 0
  lwDeep : Nat := 0
  lwBad : Nat := 0
  lwNoHyp : Nat := 0       -- a list strictly above in an earlier stage
  lwNoHypDiff : Nat := 0
  nkl : Nat := 0
  nklBad : Nat := 0
  nklNoHyp : Nat := 0
  nklNoHypDiff : Nat := 0
  idx : Nat := 0
  idxBad : Nat := 0
  idxLater : Nat := 0
  deriving Repr

def foldFrom (a : Plain) (ds : List Plain) : Except Err Plain :=
  ds.foldl (fun acc x => match acc with | .error e => .error e | .ok a => upd a x) (.ok a)

def main (args : List String) : IO Unit := do
  let seed := (args.headD "1").toNat!
  let n := ((args.drop 1).headD "2000").toNat!
  let mut st := seed * 7919 + 13
  let mut c : Cnt := {}
  let mut shown := 0
  for i in [0:n] do
    let (k, st1) := (rnd 3).run st
    st := st1
    let nst := k + 2
    let mut raws : List Raw := []
    for j in [0:nst] do
      let (x, st3) := (rnd 4).run st
      st := st3
      let (r, st2) := (if j == 0 || x == 0 then genRoot else derive 3 (raws.getD (j-1) default)).run st
      st := st2
      raws := raws ++ [r]
    if !raws.all rawPlain then continue
    c := { c with runs := c.runs + 1 }
    let docs := raws.map plainOfRaw
    -- tie: flatten vs foldUpd (already a theorem; sanity of the harness)
    if i % 10 == 0 then
      match raws.mapM (fun r => construct {} r) with
      | .ok ns =>
        c := { c with tie := c.tie + 1 }
        match (flatten ns).map native, foldUpd docs with
        | .ok a, .ok b => if !peq a b then c := { c with tieBad := c.tieBad + 1 }
        | .error e1, .error e2 => if e1 != e2 then c := { c with tieBad := c.tieBad + 1 }
        | _, _ => c := { c with tieBad := c.tieBad + 1 }
      | .error _ => c := { c with tieBad := c.tieBad + 1 }
    let res := foldUpd docs
    match res with
    | .error _ => c := { c with err := c.err + 1 }
    | .ok _ => c := { c with ok := c.ok + 1 }
    -- list index error: for every split pre ++ d :: post
    for j in [1:docs.length] do
      let pre := docs.take j
      let d := docs.getD j (.scalar .null)
      match foldUpd pre with
      | .error _ => pure ()
      | .ok a =>
        for (q, v) in paths [] d do
          match v, a.at? q with
          | .dict bs, some (.list xs) =>
            if bs.any (fun kv => (listIndex xs.length kv.1).isNone) then
              c := { c with idx := c.idx + 1 }
              if j + 1 < docs.length then c := { c with idxLater := c.idxLater + 1 }
              match res with
              | .error .merge => pure ()
              | _ =>
                c := { c with idxBad := c.idxBad + 1 }
                if shown < 6 then
                  shown := shown + 1
                  IO.println s!"IDX BAD #{i} j={j} q={repr q}\n docs={repr docs}"
          | _, _ => pure ()
    match res with
    | .error _ => pure ()
    | .ok r =>
      for j in [0:docs.length] do
        let pre := docs.take j
        let d := docs.getD j (.scalar .null)
        let post := docs.drop (j + 1)
        -- frame: a = fold (pre ++ [d]); post skips q
        match foldUpd (pre ++ [d]) with
        | .error _ => pure ()
        | .ok a =>
          for (q, _) in paths [] a do
            if q != [] && !post.isEmpty && post.all (skips q) then
              c := { c with frame := c.frame + 1 }
              if !opeq (r.at? q) (a.at? q) then
                c := { c with frameBad := c.frameBad + 1 }
                if shown < 6 then
                  shown := shown + 1
                  IO.println s!"FRAME BAD #{i} j={j} q={repr q}\n docs={repr docs}"
        for (q, v) in paths [] d do
          if q != [] then
            -- last writer: v is not a mapping, later stages skip q
            if !isDictP v && post.all (skips q) then
              if pre.all (noListAbove q) then
                c := { c with lw := c.lw + 1 }
                if q.length ≥ 2 then c := { c with lwDeep := c.lwDeep + 1 }
                if !opeq (r.at? q) (some v) then
                  c := { c with lwBad := c.lwBad + 1 }
                  if shown < 6 then
                    shown := shown + 1
                    IO.println s!"LW BAD #{i} j={j} q={repr q}\n docs={repr docs}"
              else
                c := { c with lwNoHyp := c.lwNoHyp + 1 }
                if !opeq (r.at? q) (some v) then c := { c with lwNoHypDiff := c.lwNoHypDiff + 1 }
            -- no key lost
            if post.all (keeps q) then
              if pre.all (noListAbove q) then
                c := { c with nkl := c.nkl + 1 }
                if (r.at? q).isNone then
                  c := { c with nklBad := c.nklBad + 1 }
                  if shown < 6 then
                    shown := shown + 1
                    IO.println s!"NKL BAD #{i} j={j} q={repr q}\n docs={repr docs}"
              else
                c := { c with nklNoHyp := c.nklNoHyp + 1 }
                if (r.at? q).isNone then c := { c with nklNoHypDiff := c.nklNoHypDiff + 1 }
  IO.println s!"{repr c}"
