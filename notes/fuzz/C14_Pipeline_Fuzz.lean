import AY.Lemmas.C04PathDefs
import AY.Lemmas.C07PipeFold
import AY.Lemmas.C14Lemmas
open AY AY.C04P

abbrev G := StateM Nat

def rnd (n : Nat) : G Nat := do
  let s ← get
  let s' := (s * 6364136223846793005 + 1442695040888963407) % (2^64)
  set s'
  pure ((s' / 2^33) % n)

def pick {α} [Inhabited α] (xs : List α) : G α := do
  let i ← rnd xs.length
  pure (xs.getD i default)

def keysA : List String := ["a", "b", "c", "d"]

def genTag (rich : Bool) : G (TagKind × CtorKw) := do
  let r ← rnd (if rich then 12 else 30)
  match r with
  | 0 => pure (.plain, { del := some true })
  | 1 => pure (.plain, { del := some false })
  | 2 => pure (.plain, { prio := some 1 })
  | 3 => pure (.plain, { prio := some (-1) })
  | 4 => pure (.plain, { del := some true, prio := some 1 })
  | 5 => pure (.plain, { del := some false, prio := some (-1) })
  | 6 => pure (.plain, { del := some true })
  | _ => pure (.none, {})

def genReqKw : G CtorKw := do
  let r ← rnd 8
  match r with
  | 0 => pure { prio := some 1 }
  | 1 => pure { prio := some (-1) }
  | 2 => pure { del := some true }
  | _ => pure {}

partial def genRaw (depth : Nat) : G Raw := do
  let (t, kw) ← genTag true
  let r ← rnd 12
  if r == 11 then
    pure (.scalar .required (← genReqKw) .empty)
  else if depth == 0 || r < 3 then
    let v ← rnd 7
    if v == 0 then pure (.scalar t kw .empty)
    else if v == 1 then pure (.scalar t kw (.lit (.int 0)))
    else if v == 6 then pure (.scalar .required (← genReqKw) .empty)
    else pure (.scalar t kw (.lit (.int v)))
  else if r < 5 then
    let n ← rnd 3
    let mut items := []
    for _ in [0:n] do
      items := items ++ [← genRaw (depth - 1)]
    let c ← rnd 6
    if c == 0 then pure (.seq (.call "rec.f") (← genReqKw) items)
    else if c == 1 then pure (.seq (.bind "rec.g") (← genReqKw) items)
    else pure (.seq t kw items)
  else
    let n ← rnd 4
    let mut items : List (Key × Raw) := []
    for _ in [0:n] do
      let k ← pick keysA
      if (alookup (.str k) items).isNone then
        items := items ++ [(.str k, ← genRaw (depth - 1))]
    let c ← rnd 8
    if c == 0 then pure (.map (.call "rec.f") (← genReqKw) items)
    else if c == 1 then pure (.map (.bind "rec.g") (← genReqKw) items)
    else pure (.map t kw items)

def genRoot : G Raw := do
  let n ← rnd 3
  let mut items : List (Key × Raw) := []
  for _ in [0:n+2] do
    let k ← pick keysA
    if (alookup (.str k) items).isNone then
      items := items ++ [(.str k, ← genRaw 4)]
  let r ← rnd 12
  if r == 0 then pure (.map .plain { del := some false } items)
  else if r == 1 then pure (.map .plain { prio := some (-1) } items)
  else pure (.map .none {} items)

/-- a later stage derived from an earlier document: mostly the same spine, random replacements -/
partial def derive (depth : Nat) : Raw → G Raw
  | .map t0 kw0 items => do
    let mut out : List (Key × Raw) := []
    for (k, v) in items do
      let r ← rnd 6
      if r < 3 then out := out ++ [(k, ← derive (depth - 1) v)]
      else if r == 3 then out := out ++ [(k, ← genRaw (min depth 2))]
      else pure ()
    let r ← rnd 3
    if r == 0 then
      let k ← pick keysA
      if (alookup (.str k) out).isNone then out := out ++ [(.str k, ← genRaw (min depth 2))]
    let (t, kw) ← genTag (depth < 3)
    let keepFn ← rnd 2
    match t0 with
    | .call _ | .bind _ => if keepFn == 0 then pure (.map t0 kw0 out) else pure (.map t kw out)
    | _ => pure (.map t kw out)
  | .seq _ _ items => do
    let mut out : List Raw := []
    for v in items do
      let r ← rnd 6
      if r < 3 then out := out ++ [← derive (depth - 1) v]
      else if r == 3 then out := out ++ [← genRaw 1]
      else pure ()
    let (t, kw) ← genTag true
    pure (.seq t kw out)
  | .scalar _ _ _ => do
    let r ← rnd 3
    if r == 0 then genRaw 2 else genRaw 0

def deriveRoot (r : Raw) : G Raw := do
  match ← derive 4 r with
  | .map _ _ items =>
    let x ← rnd 12
    if x == 0 then pure (.map .plain { del := some false } items)
    else pure (.map .none {} items)
  | other => pure other

partial def preorder (pre : Path) : Node → List (Path × Node)
  | .leaf f k => [(pre, .leaf f k)]
  | .comp f k cs => (pre, .comp f k cs) :: (cs.map (fun kv => preorder (pre ++ [kv.1]) kv.2)).flatten

def isReq : Node → Bool
  | .leaf _ .required => true
  | _ => false

def isFuncNode : Node → Bool
  | .comp _ (.call _) _ => true
  | .comp _ (.bind _) _ => true
  | _ => false

/-- paths of `requiredPaths [] r` at or below `p`, relative to `p` -/
def below (p : Path) (ps : List Path) : List Path :=
  ps.filterMap (fun q => if p.isPrefixOf q then some (q.drop p.length) else none)

structure Cnt where
  docs : Nat := 0
  mergeOk : Nat := 0
  mergeErr : Nat := 0
  noNew : Nat := 0          -- merges checked for "no placeholder is created"
  noNewBad : Nat := 0
  a1 : Nat := 0             -- placeholder in s, writer d in o, not outranked
  a1clean : Nat := 0        -- ... d has no placeholder
  a1rem : Nat := 0          -- ... removedBy d
  a1deep : Nat := 0
  a1bad : Nat := 0
  a1only : Nat := 0         -- only placeholder, o has none
  a1onlyBad : Nat := 0
  a2 : Nat := 0             -- deleting ancestor, nothing protected
  a2had : Nat := 0          -- ... and the older node had a placeholder below
  a2bad : Nat := 0
  a2prot : Nat := 0         -- deleting ancestor, something protected (outside)
  a2protDiff : Nat := 0
  a3 : Nat := 0             -- untouched placeholder
  a3func : Nat := 0         -- ... inside a function node
  a3bad : Nat := 0
  a3fold : Nat := 0
  a3foldBad : Nat := 0
  a4 : Nat := 0             -- placeholder outranks the writer
  a4bad : Nat := 0
  a5 : Nat := 0             -- new entry with placeholders
  a5func : Nat := 0
  a5bad : Nat := 0
  cfgReq : Nat := 0         -- final configs failing with required
  cfgBad : Nat := 0
  deriving Repr

def reprPath (p : Path) : String := toString (repr p)

def checkPair (s o r : Node) (c : Cnt) (show_ : Bool) (tag : String) : IO Cnt := do
  let mut c := c
  let rp := requiredPaths [] r
  let sp := requiredPaths [] s
  -- no creation
  c := { c with noNew := c.noNew + 1 }
  if hasRequired r && !(hasRequired s || hasRequired o) then
    c := { c with noNewBad := c.noNewBad + 1 }
    if show_ then IO.println s!"NONEW BAD {tag}\n s={repr s}\n o={repr o}"
  -- A3: untouched placeholders (divergence at any prefix)
  for P in sp do
    let mut div := false
    for n in [1:P.length+1] do
      let Q := P.take n
      if dictAlong Q s && divergesLive Q o then div := true
    if div then
      c := { c with a3 := c.a3 + 1 }
      if (preorder [] s).any (fun (q, n) => isFuncNode n && q.isPrefixOf P && q.length < P.length) then
        c := { c with a3func := c.a3func + 1 }
      if !rp.contains P then
        c := { c with a3bad := c.a3bad + 1 }
        if show_ then IO.println s!"A3 BAD {tag} P={reprPath P}\n s={repr s}\n o={repr o}"
  for (p, d) in preorder [] o do
    if p != [] && liveAlong p o && dictAlong p s then
      match getNode s p with
      | none =>
        -- A5: new entry
        if hasRequired d then
          c := { c with a5 := c.a5 + 1 }
          if (preorder [] d).any (fun (_, n) => isFuncNode n) then c := { c with a5func := c.a5func + 1 }
          if below p rp != requiredPaths [] d then
            c := { c with a5bad := c.a5bad + 1 }
            if show_ then IO.println s!"A5 BAD {tag} p={reprPath p}\n s={repr s}\n o={repr o}\n got={repr (below p rp)}"
      | some e =>
        match e with
        | .leaf ef .required =>
          if !hasPrio ef d.flags false then
            c := { c with a1 := c.a1 + 1 }
            if p.length ≥ 2 then c := { c with a1deep := c.a1deep + 1 }
            if !hasRequired d then c := { c with a1clean := c.a1clean + 1 }
            if removedBy d then c := { c with a1rem := c.a1rem + 1 }
            let expected := if removedBy d then [] else requiredPaths [] d
            if below p rp != expected then
              c := { c with a1bad := c.a1bad + 1 }
              if show_ then IO.println s!"A1 BAD {tag} p={reprPath p}\n s={repr s}\n o={repr o}\n got={repr (below p rp)}"
            if sp == [p] && !hasRequired o then
              c := { c with a1only := c.a1only + 1 }
              if hasRequired r then
                c := { c with a1onlyBad := c.a1onlyBad + 1 }
                if show_ then IO.println s!"A1ONLY BAD {tag} p={reprPath p}\n s={repr s}\n o={repr o}"
          else
            c := { c with a4 := c.a4 + 1 }
            if !rp.contains p then
              c := { c with a4bad := c.a4bad + 1 }
              if show_ then IO.println s!"A4 BAD {tag} p={reprPath p}\n s={repr s}\n o={repr o}"
        | _ =>
          if eDel d && hasPrio d.flags e.flags true && plainKind e then
            if noneProtected d e then
              c := { c with a2 := c.a2 + 1 }
              if hasRequired e then c := { c with a2had := c.a2had + 1 }
              let expected := if removedBy d then [] else requiredPaths [] d
              if below p rp != expected then
                c := { c with a2bad := c.a2bad + 1 }
                if show_ then IO.println s!"A2 BAD {tag} p={reprPath p}\n s={repr s}\n o={repr o}\n got={repr (below p rp)}"
            else
              c := { c with a2prot := c.a2prot + 1 }
              let expected := if removedBy d then [] else requiredPaths [] d
              if below p rp != expected then c := { c with a2protDiff := c.a2protDiff + 1 }
  pure c

def main (args : List String) : IO Unit := do
  let seed := (args.headD "1").toNat!
  let n := ((args.drop 1).headD "2000").toNat!
  let mut st := seed * 7919 + 13
  let mut c : Cnt := {}
  let mut shown := 0
  for i in [0:n] do
    let (k, st1) := (rnd 3).run st
    st := st1
    let nst := k + 2
    let mut raws : List Raw := []
    for j in [0:nst] do
      let (x, st3) := (rnd 3).run st
      st := st3
      let (r, st2) := (if j == 0 || x == 0 then genRoot else deriveRoot (raws.getD (j-1) default)).run st
      st := st2
      raws := raws ++ [r]
    let nodes? := raws.mapM (fun r => construct {} r)
    match nodes? with
    | .error _ => pure ()
    | .ok nodes =>
      c := { c with docs := c.docs + 1 }
      let xs := nodes.dropLast
      let o := nodes.getLast!
      match flatten xs with
      | .error _ => pure ()
      | .ok s =>
        match mergeF (o.depth + 1 + (i % 3)) s o with
        | .error _ => c := { c with mergeErr := c.mergeErr + 1 }
        | .ok (r, _) =>
          c := { c with mergeOk := c.mergeOk + 1 }
          let badOf := fun (c : Cnt) => c.noNewBad + c.a1bad + c.a1onlyBad + c.a2bad + c.a3bad + c.a4bad + c.a5bad + c.a3foldBad + c.cfgBad
          let bad0 := badOf c
          c ← checkPair s o r c (shown < 6) s!"#{i}"
          -- config: fails with required iff hasRequired, lists requiredPaths
          match flatten nodes with
          | .ok r' =>
            if hasRequired r' then
              c := { c with cfgReq := c.cfgReq + 1 }
              match config {} r' with
              | .error (.required ps) => if ps != requiredPaths [] r' then c := { c with cfgBad := c.cfgBad + 1 }
              | _ => c := { c with cfgBad := c.cfgBad + 1 }
          | .error _ => pure ()
          -- A3 over a fold: a placeholder of the FIRST stage that no later stage reaches
          match nodes with
          | n0 :: ys =>
            match flatten nodes with
            | .ok rr =>
              for P in requiredPaths [] n0 do
                let mut allDiv := true
                for y in ys do
                  let mut div := false
                  for m in [1:P.length+1] do
                    if divergesLive (P.take m) y then div := true
                  if !div then allDiv := false
                -- the spine of the first stage along the divergence must be mappings
                if allDiv && ys.all C07P.opFree then
                  -- weakest useful: dictAlong up to the deepest divergence point
                  let mut ok := true
                  for y in ys do
                    let mut any := false
                    for m in [1:P.length+1] do
                      if divergesLive (P.take m) y && dictAlong (P.take m) n0 then any := true
                    if !any then ok := false
                  if ok then
                    c := { c with a3fold := c.a3fold + 1 }
                    if !(requiredPaths [] rr).contains P then
                      c := { c with a3foldBad := c.a3foldBad + 1 }
                      if shown < 6 then IO.println s!"A3FOLD BAD #{i} P={reprPath P}\n raws={repr raws}"
            | .error _ => pure ()
          | [] => pure ()
          let bad1 := badOf c
          if bad1 > bad0 then
            shown := shown + 1
            if shown ≤ 6 then IO.println s!"  raws={repr raws}"
  IO.println s!"{repr c}"
