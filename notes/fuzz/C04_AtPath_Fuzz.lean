import AY.Lemmas.C04PathDefs
import AY.Lemmas.C07PipeFold
open AY AY.C04P

abbrev G := StateM Nat

def rnd (n : Nat) : G Nat := do
  let s ← get
  let s' := (s * 6364136223846793005 + 1442695040888963407) % (2^64)
  set s'
  pure ((s' / 2^33) % n)

def pick {α} [Inhabited α] (xs : List α) : G α := do
  let i ← rnd xs.length
  pure (xs.getD i default)

def keysA : List String := ["a", "b", "c", "d"]

def genTag (rich : Bool) : G (TagKind × CtorKw) := do
  let r ← rnd (if rich then 12 else 30)
  match r with
  | 0 => pure (.plain, { del := some true })
  | 1 => pure (.plain, { del := some false })
  | 2 => pure (.plain, { prio := some 1 })
  | 3 => pure (.plain, { prio := some (-1) })
  | 4 => pure (.plain, { del := some true, prio := some 1 })
  | 5 => pure (.plain, { del := some false, prio := some (-1) })
  | 6 => pure (.plain, { del := some true })
  | _ => pure (.none, {})

partial def genRaw (depth : Nat) : G Raw := do
  let (t, kw) ← genTag true
  let r ← rnd 10
  if depth == 0 || r < 3 then
    let v ← rnd 6
    if v == 0 then pure (.scalar t kw .empty)
    else if v == 1 then pure (.scalar t kw (.lit (.int 0)))
    else pure (.scalar t kw (.lit (.int v)))
  else if r < 5 then
    let n ← rnd 3
    let mut items := []
    for _ in [0:n] do
      items := items ++ [← genRaw (depth - 1)]
    pure (.seq t kw items)
  else
    let n ← rnd 4
    let mut items : List (Key × Raw) := []
    for _ in [0:n] do
      let k ← pick keysA
      if (alookup (.str k) items).isNone then
        items := items ++ [(.str k, ← genRaw (depth - 1))]
    pure (.map t kw items)

def genRoot : G Raw := do
  let n ← rnd 3
  let mut items : List (Key × Raw) := []
  for _ in [0:n+2] do
    let k ← pick keysA
    if (alookup (.str k) items).isNone then
      items := items ++ [(.str k, ← genRaw 4)]
  let r ← rnd 12
  if r == 0 then pure (.map .plain { del := some false } items)
  else if r == 1 then pure (.map .plain { prio := some (-1) } items)
  else pure (.map .none {} items)


/-- a later stage derived from an earlier document: mostly the same spine, random replacements -/
partial def derive (depth : Nat) : Raw → G Raw
  | .map _ _ items => do
    let mut out : List (Key × Raw) := []
    for (k, v) in items do
      let r ← rnd 6
      if r < 3 then out := out ++ [(k, ← derive (depth - 1) v)]
      else if r == 3 then out := out ++ [(k, ← genRaw (min depth 2))]
      else pure ()
    let r ← rnd 3
    if r == 0 then
      let k ← pick keysA
      if (alookup (.str k) out).isNone then out := out ++ [(.str k, ← genRaw (min depth 2))]
    let (t, kw) ← genTag (depth < 3)
    pure (.map t kw out)
  | .seq _ _ items => do
    let mut out : List Raw := []
    for v in items do
      let r ← rnd 6
      if r < 3 then out := out ++ [← derive (depth - 1) v]
      else if r == 3 then out := out ++ [← genRaw 1]
      else pure ()
    let (t, kw) ← genTag true
    pure (.seq t kw out)
  | .scalar _ _ _ => do
    let r ← rnd 3
    if r == 0 then genRaw 2 else genRaw 0

def deriveRoot (r : Raw) : G Raw := do
  match ← derive 4 r with
  | .map _ _ items =>
    let x ← rnd 12
    if x == 0 then pure (.map .plain { del := some false } items)
    else pure (.map .none {} items)
  | other => pure other

mutual
partial def peq : Plain → Plain → Bool
  | .scalar a, .scalar b => a == b
  | .list a, .list b => peqL a b
  | .dict a, .dict b => peqD a b
  | _, _ => false
partial def peqL : List Plain → List Plain → Bool
  | [], [] => true
  | a :: as, b :: bs => peq a b && peqL as bs
  | _, _ => false
partial def peqD : List (Key × Plain) → List (Key × Plain) → Bool
  | [], [] => true
  | (k, a) :: as, (k', b) :: bs => k == k' && peq a b && peqD as bs
  | _, _ => false
end

def opeq : Option Plain → Option Plain → Bool
  | none, none => true
  | some a, some b => peq a b
  | _, _ => false

partial def preorder (pre : Path) : Node → List (Path × Node)
  | .leaf f k => [(pre, .leaf f k)]
  | .comp f k cs => (pre, .comp f k cs) :: (cs.map (fun kv => preorder (pre ++ [kv.1]) kv.2)).flatten

def isLeaf : Node → Bool
  | .leaf .. => true
  | _ => false

structure Cnt where
  docs : Nat := 0
  mergeOk : Nat := 0
  mergeErr : Nat := 0
  t1 : Nat := 0        -- del exact: cases in domain
  t1rem : Nat := 0     -- ... of which removed
  t1deep : Nat := 0    -- ... with |p| ≥ 2
  t1bad : Nat := 0
  t1noHyp : Nat := 0   -- deleting node, not outranked, but something protected
  t1noHypDiff : Nat := 0
  frame : Nat := 0
  frameBad : Nat := 0
  t2 : Nat := 0
  t2bad : Nat := 0
  t2d29 : Nat := 0      -- protected leaf, dictAlong q d fails
  t2d29lost : Nat := 0
  t2gone : Nat := 0
  t2goneBad : Nat := 0
  t2new : Nat := 0
  t2newBad : Nat := 0
  t3 : Nat := 0
  t3bad : Nat := 0
  t3l : Nat := 0
  t3lbad : Nat := 0
  t5 : Nat := 0
  t5bad : Nat := 0
  deriving Repr

def reprPath (p : Path) : String := toString (repr p)

def keptAtB (d : Node) (k : Key) (c : Node) : Bool :=
  maybeKeep d [k] c || (c.isComp && !(filterNode (maybeKeep d) [k] c).1.children.isEmpty)

def checkPair (s o r : Node) (c : Cnt) (show_ : Bool) (tag : String) : IO Cnt := do
  let mut c := c
  let nr := native r
  let ns := native s
  -- frame
  for (q, _) in preorder [] s do
    if divergesLive q o && dictAlong q s then
      c := { c with frame := c.frame + 1 }
      if !opeq (nr.at? q) (ns.at? q) then
        c := { c with frameBad := c.frameBad + 1 }
        if show_ then IO.println s!"FRAME BAD {tag} q={reprPath q}\n s={repr s}\n o={repr o}"
  for (p, d) in preorder [] o do
    if p != [] && liveAlong p o && dictAlong p s then
      match getNode s p with
      | none => pure ()
      | some e =>
        -- T1
        if eDel d && hasPrio d.flags e.flags true && plainKind e then
          if noneProtected d e then
            c := { c with t1 := c.t1 + 1 }
            if p.length ≥ 2 then c := { c with t1deep := c.t1deep + 1 }
            let expected := if removedBy d then none else some (native d)
            if removedBy d then c := { c with t1rem := c.t1rem + 1 }
            if !opeq (nr.at? p) expected then
              c := { c with t1bad := c.t1bad + 1 }
              if show_ then IO.println s!"T1 BAD {tag} p={reprPath p}\n s={repr s}\n o={repr o}\n got={repr (nr.at? p)}"
          else
            c := { c with t1noHyp := c.t1noHyp + 1 }
            let expected := if removedBy d then none else some (native d)
            if !opeq (nr.at? p) expected then c := { c with t1noHypDiff := c.t1noHypDiff + 1 }
        -- T2
        match e, d with
        | .comp _ .dict ecs, .comp _ .dict dcs =>
          if eDel d && keysNodup ecs && keysNodup dcs then
            for (q, m) in preorder [] e do
              if q != [] && isLeaf m && protectedAt d q m && dictAlong q e then
                if dictAlong q d then
                  c := { c with t2 := c.t2 + 1 }
                  if !opeq (nr.at? (p ++ q)) (some (native m)) then
                    c := { c with t2bad := c.t2bad + 1 }
                    if show_ then IO.println s!"T2 BAD {tag} p={reprPath p} q={reprPath q}\n s={repr s}\n o={repr o}\n got={repr (nr.at? (p ++ q))}"
                else
                  c := { c with t2d29 := c.t2d29 + 1 }
                  if !opeq (nr.at? (p ++ q)) (some (native m)) then c := { c with t2d29lost := c.t2d29lost + 1 }
            -- keys of e not mentioned by d with nothing protected: gone
            for (k2, ch) in ecs do
              if (alookup k2 dcs).isNone && !keptAtB d k2 ch then
                c := { c with t2gone := c.t2gone + 1 }
                if !opeq (nr.at? (p ++ [k2])) none then
                  c := { c with t2goneBad := c.t2goneBad + 1 }
                  if show_ then IO.println s!"T2gone BAD {tag} p={reprPath p} k={repr k2}\n s={repr s}\n o={repr o}"
            -- keys of d whose counterpart in e has nothing protected: exactly the newer value
            for (k2, v) in dcs do
              let un := match alookup k2 ecs with
                | none => true
                | some ch => !keptAtB d k2 ch
              if un then
                c := { c with t2new := c.t2new + 1 }
                if !opeq (nr.at? (p ++ [k2])) (some (native v)) then
                  c := { c with t2newBad := c.t2newBad + 1 }
                  if show_ then IO.println s!"T2new BAD {tag} p={reprPath p} k={repr k2}\n s={repr s}\n o={repr o}\n got={repr (nr.at? (p ++ [k2]))}"
          -- T3 mapping
          if !eDel d && keysNodup dcs && keysNodup ecs then
            -- the node at p stays a mapping; keys of e not in d unchanged; keys of d not in e created
            for (k2, ch) in ecs do
              if (alookup k2 dcs).isNone then
                c := { c with t3 := c.t3 + 1 }
                if !opeq (nr.at? (p ++ [k2])) (some (native ch)) then
                  c := { c with t3bad := c.t3bad + 1 }
                  if show_ then IO.println s!"T3 BAD(old) {tag} p={reprPath p} k={repr k2}\n s={repr s}\n o={repr o}"
            for (k2, v) in dcs do
              match alookup k2 ecs with
              | none =>
                c := { c with t3 := c.t3 + 1 }
                if !opeq (nr.at? (p ++ [k2])) (some (native v)) then
                  c := { c with t3bad := c.t3bad + 1 }
                  if show_ then IO.println s!"T3 BAD(new) {tag} p={reprPath p} k={repr k2}\n s={repr s}\n o={repr o}"
              | some ch =>
                -- common key: stepAt of the two entries
                match mergeF (v.depth + 1) ch v with
                | .error _ =>
                  c := { c with t3bad := c.t3bad + 1 }
                  if show_ then IO.println s!"T3 BAD(common err) {tag}"
                | .ok (nw, _) =>
                  c := { c with t3 := c.t3 + 1 }
                  let got := nr.at? (p ++ [k2])
                  -- either removed or native nw
                  if !(opeq got (some (native nw)) || (opeq got none && !nw.truthy && v.flags.del == some true)) then
                    c := { c with t3bad := c.t3bad + 1 }
                    if show_ then IO.println s!"T3 BAD(common) {tag} p={reprPath p} k={repr k2}\n s={repr s}\n o={repr o}"
        | .comp _ .list ecs, .comp _ .list dcs =>
          if !eDel d && listKeys 0 ecs && listKeys 0 dcs && noExplicitDel dcs &&
              allKept (keepIfExists e) [] d then
            c := { c with t3l := c.t3l + 1 }
            -- index-wise: length max, positions
            match nr.at? p with
            | some (.list items) =>
              let mut ok := items.length == max ecs.length dcs.length
              for i in [0:items.length] do
                let it := items.getD i (.scalar .null)
                match alookup (.int i) ecs, alookup (.int i) dcs with
                | some a, none => ok := ok && peq it (native a)
                | none, some b => ok := ok && peq it (native b)
                | some a, some b =>
                  match mergeF (b.depth + 1) a b with
                  | .ok (nw, _) => ok := ok && peq it (native nw)
                  | .error _ => ok := false
                | none, none => ok := false
              if !ok then
                c := { c with t3lbad := c.t3lbad + 1 }
                if show_ then IO.println s!"T3L BAD {tag} p={reprPath p}\n s={repr s}\n o={repr o}"
            | _ =>
              c := { c with t3lbad := c.t3lbad + 1 }
              if show_ then IO.println s!"T3L BAD(shape) {tag} p={reprPath p}\n s={repr s}\n o={repr o}\n got={repr (nr.at? p)}"
        | _, _ => pure ()
  pure c

def main (args : List String) : IO Unit := do
  let seed := (args.headD "1").toNat!
  let n := ((args.drop 1).headD "2000").toNat!
  let mut st := seed * 7919 + 13
  let mut c : Cnt := {}
  let mut shown := 0
  for i in [0:n] do
    let (k, st1) := (rnd 3).run st
    st := st1
    let nst := k + 2
    let mut raws : List Raw := []
    for j in [0:nst] do
      let (x, st3) := (rnd 3).run st
      st := st3
      let (r, st2) := (if j == 0 || x == 0 then genRoot else deriveRoot (raws.getD (j-1) default)).run st
      st := st2
      raws := raws ++ [r]
    let nodes? := raws.mapM (fun r => construct {} r)
    match nodes? with
    | .error _ => pure ()
    | .ok nodes =>
      c := { c with docs := c.docs + 1 }
      let xs := nodes.dropLast
      let o := nodes.getLast!
      match flatten xs with
      | .error _ => pure ()
      | .ok s =>
        -- all merges with different fuels
        match mergeF (o.depth + 1 + (i % 3)) s o with
        | .error _ => c := { c with mergeErr := c.mergeErr + 1 }
        | .ok (r, _) =>
          c := { c with mergeOk := c.mergeOk + 1 }
          let bad0 := c.t1bad + c.frameBad + c.t2bad + c.t2goneBad + c.t2newBad + c.t3bad + c.t3lbad
          c ← checkPair s o r c (shown < 6) s!"#{i}"
          let bad1 := c.t1bad + c.frameBad + c.t2bad + c.t2goneBad + c.t2newBad + c.t3bad + c.t3lbad
          if bad1 > bad0 then
            shown := shown + 1
            if shown ≤ 6 then IO.println s!"  raws={repr raws}"
          -- T5: flatten of all stages = merge of the flattened prefix with the last one
          if C07P.opFree o then
            c := { c with t5 := c.t5 + 1 }
            match flatten nodes with
            | .ok r' => if !peq (native r') (native r) then c := { c with t5bad := c.t5bad + 1 }
            | .error _ => c := { c with t5bad := c.t5bad + 1 }
  IO.println s!"{repr c}"
